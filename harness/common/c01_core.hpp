// c01_core.hpp - the generic "apply" property: r := A x, r := y + alpha A x and transposed variants
#pragma once
#include "lafem_gen.hpp"
#include <kernel/lafem/tuple_vector.hpp>
#include <kernel/lafem/power_vector.hpp>

namespace vf
{
  // ---------------------------------------------------------------- generic vector access (own recursion over the composition)
  template<typename DT, typename IT> long vsize(const DenseVector<DT, IT>& v) { return (long)v.size(); }
  template<typename DT, typename IT, int B> long vsize(const DenseVectorBlocked<DT, IT, B>& v) { return (long)v.size() * B; }
  template<typename Sub, int n> long vsize(const PowerVector<Sub, n>& v);
  template<typename F, typename... R> long vsize(const TupleVector<F, R...>& v);
  template<typename F> long vsize(const TupleVector<F>& v) { return vsize(v.first()); }
  template<typename F, typename... R> long vsize(const TupleVector<F, R...>& v) { return vsize(v.first()) + vsize(v.rest()); }
  template<typename Sub> long vsize(const PowerVector<Sub, 1>& v) { return vsize(v.first()); }
  template<typename Sub, int n> long vsize(const PowerVector<Sub, n>& v) { return vsize(v.first()) + vsize(v.rest()); }

  template<typename DT, typename IT> DT* vptr(DenseVector<DT, IT>& v) { return v.elements(); }
  template<typename DT, typename IT, int B> DT* vptr(DenseVectorBlocked<DT, IT, B>& v) { return v.template elements<Perspective::pod>(); }

  // fill from a double array
  template<typename DT, typename IT> void vfill(DenseVector<DT, IT>& v, const double*& p) { for(Index i = 0; i < v.size(); ++i) v.elements()[i] = DT(*p++); }
  template<typename DT, typename IT, int B> void vfill(DenseVectorBlocked<DT, IT, B>& v, const double*& p) { DT* e = v.template elements<Perspective::pod>(); for(Index i = 0; i < v.size() * Index(B); ++i) e[i] = DT(*p++); }
  template<typename Sub, int n> void vfill(PowerVector<Sub, n>& v, const double*& p);
  template<typename F, typename... R> void vfill(TupleVector<F, R...>& v, const double*& p);
  template<typename F> void vfill(TupleVector<F>& v, const double*& p) { vfill(v.first(), p); }
  template<typename F, typename... R> void vfill(TupleVector<F, R...>& v, const double*& p) { vfill(v.first(), p); vfill(v.rest(), p); }
  template<typename Sub> void vfill(PowerVector<Sub, 1>& v, const double*& p) { vfill(v.first(), p); }
  template<typename Sub, int n> void vfill(PowerVector<Sub, n>& v, const double*& p) { vfill(v.first(), p); vfill(v.rest(), p); }

  // flatten to long double
  template<typename DT, typename IT> void vflat(const DenseVector<DT, IT>& v, std::vector<long double>& o) { for(Index i = 0; i < v.size(); ++i) o.push_back((long double)v.elements()[i]); }
  template<typename DT, typename IT, int B> void vflat(const DenseVectorBlocked<DT, IT, B>& v, std::vector<long double>& o) { const DT* e = v.template elements<Perspective::pod>(); for(Index i = 0; i < v.size() * Index(B); ++i) o.push_back((long double)e[i]); }
  template<typename Sub, int n> void vflat(const PowerVector<Sub, n>& v, std::vector<long double>& o);
  template<typename F, typename... R> void vflat(const TupleVector<F, R...>& v, std::vector<long double>& o);
  template<typename F> void vflat(const TupleVector<F>& v, std::vector<long double>& o) { vflat(v.first(), o); }
  template<typename F, typename... R> void vflat(const TupleVector<F, R...>& v, std::vector<long double>& o) { vflat(v.first(), o); vflat(v.rest(), o); }
  template<typename Sub> void vflat(const PowerVector<Sub, 1>& v, std::vector<long double>& o) { vflat(v.first(), o); }
  template<typename Sub, int n> void vflat(const PowerVector<Sub, n>& v, std::vector<long double>& o) { vflat(v.first(), o); vflat(v.rest(), o); }

  // raw bytes (bit-exact comparisons)
  template<typename DT, typename IT> void vbytes(const DenseVector<DT, IT>& v, std::string& o) { if(v.size()) o.append((const char*)v.elements(), v.size() * sizeof(DT)); o += '|'; }
  template<typename DT, typename IT, int B> void vbytes(const DenseVectorBlocked<DT, IT, B>& v, std::string& o) { if(v.size()) o.append((const char*)v.template elements<Perspective::pod>(), v.size() * B * sizeof(DT)); o += '|'; }
  template<typename Sub, int n> void vbytes(const PowerVector<Sub, n>& v, std::string& o);
  template<typename F, typename... R> void vbytes(const TupleVector<F, R...>& v, std::string& o);
  template<typename F> void vbytes(const TupleVector<F>& v, std::string& o) { vbytes(v.first(), o); }
  template<typename F, typename... R> void vbytes(const TupleVector<F, R...>& v, std::string& o) { vbytes(v.first(), o); vbytes(v.rest(), o); }
  template<typename Sub> void vbytes(const PowerVector<Sub, 1>& v, std::string& o) { vbytes(v.first(), o); }
  template<typename Sub, int n> void vbytes(const PowerVector<Sub, n>& v, std::string& o) { vbytes(v.first(), o); vbytes(v.rest(), o); }

  template<typename V> void vfill_all(V& v, const std::vector<double>& vals) { const double* p = vals.data(); vfill(v, p); }

  // ---------------------------------------------------------------- dims classification
  inline std::string dim_class(long r, long c)
  {
    if(r == 0 || c == 0) return "dims:zero"; if(r == 1 && c == 1) return "dims:1x1"; if(r == c) return "dims:square"; return "dims:rect";
  }

  /// the property body. mk_l/mk_r create vectors of the row/column space. snap() gives the raw bytes of A.
  template<typename DT, bool HasT = true, typename M, typename MkL, typename MkR, typename Snap>
  void apply_case_d(Tape& t, Ctx& c, const M& A, const Dense& D, const Dense& Dexp, bool has_transposed, MkL mk_l, MkR mk_r, Snap snap)
  {
    // 1. the container represents the generated matrix (D: independent view from the raw arrays)
    VF_CHECK(D.r == Dexp.r && D.c == Dexp.c, "constructed matrix has dims " << D.r << "x" << D.c << " expected " << Dexp.r << "x" << Dexp.c);
    VF_CHECK(D.a == Dexp.a, "constructed matrix differs from its description");

    int op = has_transposed ? t.pick({3, 3, 2, 2}) : t.pick({1, 1});
    bool transposed = op >= 2; bool axpy = (op % 2) == 1;
    static const char* opn[] = {"apply", "apply_axpy", "apply_transposed", "apply_transposed_axpy"};
    c.op = opn[op]; c.label(std::string("op:") + opn[op]);
    std::string acls = "alpha-none"; DT alpha = DT(1);
    bool alias = false; int ycls = 0;
    if(axpy) { alpha = gen_alpha<DT>(t, acls); alias = t.flag(1, 3); ycls = t.pick({3, 1}); }
    c.label(acls); if(axpy) c.label(alias ? "alias:r==y" : "alias:none");
    c.label(dim_class(D.r, D.c));
    const Dense Dop = transposed ? D.transposed() : D;
    long nin = Dop.c, nout = Dop.r;
    int vcls = t.pick({3, 1, 2, 1});
    std::vector<double> xv = gen_values(t, (size_t)nin, vcls);
    std::vector<double> yv = gen_values(t, (size_t)nout, ycls == 0 ? vcls : 0);
    long nnz = 0; for(char s : D.stored) nnz += s;
    bool has_empty_row = false; for(long i = 0; i < D.r && !has_empty_row; ++i) { bool any = false; for(long j = 0; j < D.c; ++j) any = any || D.st(i, j); if(!any) has_empty_row = true; }
    if(nnz == 0) c.label("entry-free"); if(has_empty_row && nnz) c.label("has-empty-row");
    c.nontrivial = nnz > 0 && D.r * D.c > 1;
    c.desc.set("op", opn[op]); c.desc.set("alpha", (double)alpha); c.desc.set("alias_r_y", alias); c.desc.set("x", J(xv)); if(axpy) c.desc.set("y", J(yv));

    // input lives in the column space (row space for transposed); L and R types may differ
    auto run = [&](auto tr_tag, auto& x, auto& r, auto& y)
    {
      VF_CHECK(vsize(x) == nin && vsize(r) == nout, "vector sizes do not fit the matrix: x " << vsize(x) << " r " << vsize(r) << " matrix " << D.r << "x" << D.c);
      vfill_all(x, xv); vfill_all(y, yv);
      std::vector<double> garbage((size_t)nout, std::numeric_limits<double>::quiet_NaN());
      if(!alias) vfill_all(r, garbage); else vfill_all(r, yv);   // aliased: r doubles as y
      std::vector<long double> xs, ys; vflat(x, xs); vflat(alias ? r : y, ys);  // stored (possibly narrowed) inputs
      std::string a0 = snap(A), x0, y0; vbytes(x, x0); if(!alias) vbytes(y, y0);
      c.announce();
      if constexpr(!decltype(tr_tag)::value) { if(!axpy) A.apply(r, x); else if(alias) A.apply(r, x, r, alpha); else A.apply(r, x, y, alpha); }
      else { if(!axpy) A.apply_transposed(r, x); else if(alias) A.apply_transposed(r, x, r, alpha); else A.apply_transposed(r, x, y, alpha); }
      std::string a1 = snap(A), x1, y1; vbytes(x, x1); if(!alias) vbytes(y, y1);
      VF_CHECK(a0 == a1, "matrix operand modified by " << opn[op]);
      VF_CHECK(x0 == x1, "x operand modified by " << opn[op]);
      VF_CHECK(y0 == y1, "y operand modified by " << opn[op]);
      std::vector<long double> rs; vflat(r, rs);
      VF_CHECK((long)rs.size() == nout, "result size changed");
      for(long i = 0; i < nout; ++i)
      {
        long double s = 0, sa = 0; long n = 0;
        for(long j = 0; j < nin; ++j) if(Dop.st(i, j)) { s += Dop(i, j) * xs[(size_t)j]; sa += fabsl(Dop(i, j) * xs[(size_t)j]); ++n; }
        long double al = (long double)alpha;
        long double ref = axpy ? ys[(size_t)i] + al * s : s;
        long double sumabs = std::max(fabsl(al), 1.0L) * sa + (axpy ? fabsl(ys[(size_t)i]) : 0.0L);
        long double tol = tol_sum<DT>(n + 1, sumabs);
        long double got = rs[(size_t)i];
        VF_CHECK(std::isfinite((double)got) && fabsl(got - ref) <= tol, opn[op] << " entry " << i << ": got " << (double)got << " expected " << (double)ref << " tol " << (double)tol);
      }
    };
    if(!transposed) { auto x = mk_r(); auto r = mk_l(); auto y = mk_l(); run(std::false_type(), x, r, y); }
    else if constexpr(HasT) { auto x = mk_l(); auto r = mk_r(); auto y = mk_r(); run(std::true_type(), x, r, y); }
  }

  template<typename DT, bool HasT = true, typename M, typename MkL, typename MkR, typename Snap>
  void apply_case(Tape& t, Ctx& c, const M& A, const Dense& Dexp, bool has_transposed, MkL mk_l, MkR mk_r, Snap snap)
  {
    Dense D = dense_of(A);
    apply_case_d<DT, HasT>(t, c, A, D, Dexp, has_transposed, mk_l, mk_r, snap);
  }
} // namespace vf
