// c17_common.hpp - shared pieces of the C17 (threaded domain assembly) harnesses
//
//  * mesh generators by construction (1D lines/rings, 2D quad grids/annuli/blocks, triangle grids/fans, 3D hexa grids),
//    cell renumbering, cell-subset selection (all / add_element / add_mesh_part / both, incl. empty, single, isolated)
//  * DA<Trafo>: derived DomainAssembler exposing the protected work-distribution arrays (structure oracle)
//  * PJob<Inner>: harness-side wrapper job. Its Task delegates prepare/assemble/scatter/finish/combine to the
//    inner task, stamps scatter/combine intervals from a global (relaxed) logical clock, checks the call protocol
//    and perturbs the schedule with seeded per-thread speed profiles ("skew first, jitter second").
//  * analysis of the logs: exactly-once, protocol, overlap of scatter intervals of vertex-adjacent cells,
//    overlap of combine intervals.
//
// All atomics of the instrumentation are memory_order_relaxed on purpose: they must not add happens-before
// edges, otherwise ThreadSanitizer would be blinded for exactly the races it is supposed to see.
#pragma once
#include "vf.hpp"
#include <kernel/runtime.hpp>
#include <kernel/geometry/conformal_mesh.hpp>
#include <kernel/geometry/mesh_part.hpp>
#include <kernel/trafo/standard/mapping.hpp>
#include <kernel/assembly/domain_assembler.hpp>
#include <atomic>
#include <thread>
#include <chrono>
#include <array>
#include <memory>
#include <dirent.h>
#include <sys/syscall.h>
#include <mutex>
#include <condition_variable>

#if defined(__SANITIZE_THREAD__)
#define C17_TSAN 1
#else
#define C17_TSAN 0
#endif

namespace c17
{
  using namespace FEAT;
  using vf::Tape; using vf::Ctx; using vf::J;
  using Assembly::ThreadingStrategy;

  // ---------------------------------------------------------------------------------------------------
  // deterministic helper PRNG (seeded from tape values only; streams per worker derive from (seed, first cell))
  // ---------------------------------------------------------------------------------------------------
  inline uint64_t mix64(uint64_t x) { x += 0x9e3779b97f4a7c15ull; x = (x ^ (x >> 30)) * 0xbf58476d1ce4e5b9ull; x = (x ^ (x >> 27)) * 0x94d049bb133111ebull; return x ^ (x >> 31); }
  struct Rng
  {
    uint64_t s = 1;
    explicit Rng(uint64_t seed = 1) : s(mix64(seed) | 1ull) {}
    uint64_t next() { s = mix64(s); return s; }
    unsigned below(unsigned n) { return n ? unsigned(next() % n) : 0u; }
  };

  // ---------------------------------------------------------------------------------------------------
  // TSan report hook (tsan flavour only): count reports instead of relying on the exit code (vf children _exit)
  // ---------------------------------------------------------------------------------------------------
  // (defined once in c17_sched.cpp; c17_main.cpp's __tsan_on_report hook fills them)
  std::atomic<int>& tsan_reports();
  std::string& tsan_first();
  int& verdict_fd();   // pipe of the running case (set right after announce)

  // ---------------------------------------------------------------------------------------------------
  // mesh description (shape independent storage)
  // ---------------------------------------------------------------------------------------------------
  struct MeshSpec
  {
    int dim = 0, nvc = 0;
    std::vector<double> xy;      // nv * dim
    std::vector<Index> cells;    // nc * nvc
    std::string cls;             // generator class
    J desc = J::obj();
    Index nv() const { return Index(xy.size() / std::size_t(dim)); }
    Index nc() const { return Index(cells.size() / std::size_t(nvc)); }
  };

  /// hypercube grid in dim dimensions with n[k] cells per direction, `blocks` disjoint copies, optionally periodic in x
  inline MeshSpec hyper_grid(int dim, const int n_[3], bool periodic, int blocks)
  {
    MeshSpec m; m.dim = dim; m.nvc = 1 << dim;
    int n[3] = { n_[0], dim > 1 ? n_[1] : 1, dim > 2 ? n_[2] : 1 };
    int vx = periodic ? n[0] : n[0] + 1, vy = dim > 1 ? n[1] + 1 : 1, vz = dim > 2 ? n[2] + 1 : 1;
    const double pi2 = 6.283185307179586;
    for(int b = 0; b < blocks; ++b)
    {
      Index voff = m.nv();
      for(int k = 0; k < vz; ++k) for(int j = 0; j < vy; ++j) for(int i = 0; i < vx; ++i)
      {
        double c[3] = { double(i) / n[0], dim > 1 ? double(j) / n[1] : 0.0, dim > 2 ? double(k) / n[2] : 0.0 };
        if(periodic && dim == 2) { double r = 1.0 + c[1], a = pi2 * c[0]; c[0] = r * std::cos(a); c[1] = r * std::sin(a); }
        c[0] += (dim == 2 && periodic ? 5.0 : 2.0) * b;
        for(int d = 0; d < dim; ++d) m.xy.push_back(c[d]);
      }
      for(int k = 0; k < n[2]; ++k) for(int j = 0; j < n[1]; ++j) for(int i = 0; i < n[0]; ++i)
        for(int l = 0; l < m.nvc; ++l)
        {
          int ii = i + (l & 1), jj = j + ((l >> 1) & 1), kk = k + ((l >> 2) & 1);
          if(periodic) ii %= n[0];
          m.cells.push_back(voff + Index((kk * vy + jj) * vx + ii));
        }
    }
    return m;
  }

  /// triangles: every quad of an nx x ny grid split in two (diag 0: same diagonal everywhere, 1: alternating,
  /// >= 2: diagonal per quad from a seeded stream => irregular vertex valences 2..8 like an unstructured mesh)
  inline MeshSpec tria_grid(int nx, int ny, uint32_t diag)
  {
    Rng dr(diag);
    int n[3] = { nx, ny, 1 }; MeshSpec q = hyper_grid(2, n, false, 1);
    MeshSpec m; m.dim = 2; m.nvc = 3; m.xy = q.xy;
    for(Index c = 0; c < q.nc(); ++c)
    {
      const Index* v = &q.cells[c * 4]; bool alt = diag >= 2 ? (dr.below(2) == 1) : (diag == 1 && (((c % Index(nx)) + (c / Index(nx))) & 1));
      if(!alt) { m.cells.insert(m.cells.end(), { v[0], v[1], v[3] }); m.cells.insert(m.cells.end(), { v[0], v[3], v[2] }); }
      else { m.cells.insert(m.cells.end(), { v[0], v[1], v[2] }); m.cells.insert(m.cells.end(), { v[1], v[3], v[2] }); }
    }
    return m;
  }

  /// n triangles around one centre vertex: every cell is adjacent to every other one
  inline MeshSpec tria_fan(int n, bool closed)
  {
    MeshSpec m; m.dim = 2; m.nvc = 3; m.xy = { 0.0, 0.0 };
    int rim = closed ? n : n + 1; double span = closed ? 6.283185307179586 : 4.5;
    for(int k = 0; k < rim; ++k) { double a = span * k / (closed ? n : n); m.xy.push_back(std::cos(a)); m.xy.push_back(std::sin(a)); }
    for(int k = 0; k < n; ++k) m.cells.insert(m.cells.end(), { Index(0), Index(1 + k), Index(1 + (k + 1) % rim) });
    return m;
  }

  /// renumber cells and vertices with a seeded shuffle (seed 0 = identity)
  inline void renumber(MeshSpec& m, uint32_t seed)
  {
    if(seed == 0) return;
    Rng r(seed); Index nv = m.nv(), nc = m.nc();
    std::vector<Index> pv(nv), pc(nc);
    for(Index i = 0; i < nv; ++i) pv[i] = i; for(Index i = 0; i < nc; ++i) pc[i] = i;
    for(Index i = nv; i > 1; --i) std::swap(pv[i - 1], pv[r.below(unsigned(i))]);
    for(Index i = nc; i > 1; --i) std::swap(pc[i - 1], pc[r.below(unsigned(i))]);
    std::vector<double> xy(m.xy.size()); std::vector<Index> cells(m.cells.size());
    for(Index i = 0; i < nv; ++i) for(int d = 0; d < m.dim; ++d) xy[pv[i] * Index(m.dim) + Index(d)] = m.xy[i * Index(m.dim) + Index(d)];
    for(Index c = 0; c < nc; ++c) for(int l = 0; l < m.nvc; ++l) cells[pc[c] * Index(m.nvc) + Index(l)] = pv[m.cells[c * Index(m.nvc) + Index(l)]];
    m.xy.swap(xy); m.cells.swap(cells);
  }

  template<typename Shape_> struct ShapeTag;
  template<> struct ShapeTag<Shape::Hypercube<1>> { static const char* n() { return "line"; } };
  template<> struct ShapeTag<Shape::Hypercube<2>> { static const char* n() { return "quad"; } };
  template<> struct ShapeTag<Shape::Hypercube<3>> { static const char* n() { return "hexa"; } };
  template<> struct ShapeTag<Shape::Simplex<2>> { static const char* n() { return "tria"; } };

  /// mesh generator: class first, then sizes (0 on the tape = one cell, plain grid, identity numbering)
  template<typename Shape_> MeshSpec gen_mesh(Tape& t, int max_cells, bool boost = false)
  {
    // boost: even at small rapidcheck sizes the size ranges span at least half of their maximum (threaded targets)
    auto szd = [&](int lo, int hi) { return t.sized(lo, hi, boost ? std::max(2, (hi - lo) / 2) : 2); };
    constexpr int dim = Shape_::dimension; constexpr bool simplex = (Shape::FaceTraits<Shape_, 0>::count == dim + 1) && dim > 1;
    MeshSpec m;
    auto lim = [&](int cap) { return std::max(1, std::min(cap, max_cells)); };
    if(simplex)
    {
      int cls = t.pick({ 4, 2, 2 });
      if(cls == 0)
      {
        int side = std::max(1, int(std::sqrt(double(max_cells) / 2.0)));
        int nx = szd(1, side), ny = szd(1, side); int dm = t.pick({ 2, 1, 2 }); uint32_t diag = dm < 2 ? uint32_t(dm) : (t.raw() | 2u);
        m = tria_grid(nx, ny, diag); m.cls = dm < 2 ? "tgrid" : "tgrid-irregular"; m.desc.set("nx", nx); m.desc.set("ny", ny); m.desc.set("diag", (long long)diag);
      }
      else
      {
        bool closed = (cls == 1); int n = szd(closed ? 3 : 1, std::max(closed ? 3 : 1, lim(24)));
        m = tria_fan(n, closed); m.cls = closed ? "fan-closed" : "fan-open"; m.desc.set("n", n);
      }
    }
    else if(dim == 1)
    {
      bool ring = t.flag(1, 4); int nn = szd(ring ? 3 : 1, std::max(ring ? 3 : 1, lim(4096)));
      int blocks = t.pick({ 5, 1, 1 }) + 1; nn = std::max(ring ? 3 : 1, nn / blocks);
      int n[3] = { nn, 1, 1 }; m = hyper_grid(1, n, ring, blocks); m.cls = ring ? "ring" : "line"; m.desc.set("n", nn); m.desc.set("blocks", blocks);
    }
    else if(dim == 2)
    {
      int cls = t.pick({ 5, 2, 2, 1 });  // grid, strip, annulus, blocks
      int side = std::max(1, int(std::sqrt(double(max_cells))));
      int nx, ny, blocks = 1; bool per = false;
      if(cls == 1) { nx = szd(1, lim(256)); ny = 1; m.cls = "strip"; }
      else if(cls == 2) { nx = szd(3, std::max(3, side)); ny = szd(1, std::max(1, side / 2)); per = true; m.cls = "annulus"; }
      else { nx = szd(1, side); ny = szd(1, side); m.cls = "grid"; }
      if(cls == 3) { blocks = t.range(2, 3); nx = std::max(1, nx / 2); m.cls = "blocks"; }
      int n[3] = { nx, ny, 1 }; std::string cl = m.cls; m = hyper_grid(2, n, per, blocks); m.cls = cl;
      m.desc.set("nx", nx); m.desc.set("ny", ny); m.desc.set("blocks", blocks);
    }
    else
    {
      int side = std::max(1, int(std::cbrt(double(max_cells)) + 0.5));
      int n[3] = { szd(1, side), szd(1, side), szd(1, side) };
      m = hyper_grid(3, n, false, 1); m.cls = "hgrid"; m.desc.set("nx", n[0]); m.desc.set("ny", n[1]); m.desc.set("nz", n[2]);
    }
    uint32_t ps = t.flag(1, 3) ? t.raw() : 0u;
    renumber(m, ps);
    m.desc.set("shape", ShapeTag<Shape_>::n()); m.desc.set("class", m.cls); m.desc.set("cells", (long long)m.nc()); m.desc.set("renumber", (long long)ps);
    return m;
  }

  template<typename Shape_> std::unique_ptr<Geometry::ConformalMesh<Shape_>> build_mesh(const MeshSpec& s)
  {
    typedef Geometry::ConformalMesh<Shape_> MeshType; constexpr int dim = Shape_::dimension;
    Index ne[dim + 1]; for(int d = 0; d <= dim; ++d) ne[d] = 0; ne[0] = s.nv(); ne[dim] = s.nc();
    std::unique_ptr<MeshType> mesh(new MeshType(ne));
    auto& vtx = mesh->get_vertex_set();
    for(Index i = 0; i < s.nv(); ++i) for(int d = 0; d < dim; ++d) vtx[i][d] = s.xy[i * Index(dim) + Index(d)];
    auto& idx = mesh->template get_index_set<dim, 0>();
    for(Index c = 0; c < s.nc(); ++c) for(int l = 0; l < s.nvc; ++l) idx[c][l] = s.cells[c * Index(s.nvc) + Index(l)];
    if constexpr(dim > 1) mesh->deduct_topology_from_top(); else mesh->fill_neighbors();
    return mesh;
  }

  // ---------------------------------------------------------------------------------------------------
  // cell subsets
  // ---------------------------------------------------------------------------------------------------
  struct Subset
  {
    std::string cls, how;          // how: all | elements | meshpart | both
    std::vector<Index> cells;      // sorted, unique
  };

  inline Subset gen_subset(Tape& t, const MeshSpec& m)
  {
    Subset s; Index nc = m.nc();
    int cls = t.pick({ 8, 4, 2, 2, 2, 1 });   // all, random, isolated lattice, single, pair, empty
    std::vector<char> mask(nc, 0);
    switch(cls)
    {
    case 0: s.cls = "all"; for(auto& x : mask) x = 1; break;
    case 1:
      {
        s.cls = "random"; int den = t.range(1, 7);   // keep probability den/8
        if(nc <= 12) { for(Index i = 0; i < nc; ++i) mask[i] = (int(t.raw() % 8u) < den) ? 1 : 0; }
        else { Rng r(t.raw()); for(Index i = 0; i < nc; ++i) mask[i] = (int(r.below(8)) < den) ? 1 : 0; }
        bool any = false; for(auto x : mask) any = any || x; if(!any) mask[0] = 1;
      }
      break;
    case 2:
      {
        // cells no two of which share a vertex (greedy over the generated numbering): every component has size one
        s.cls = "isolated"; std::vector<char> used(m.nv(), 0);
        for(Index c = 0; c < nc; ++c)
        {
          bool free_ = true; for(int l = 0; l < m.nvc; ++l) free_ = free_ && !used[m.cells[c * Index(m.nvc) + Index(l)]];
          if(free_) { mask[c] = 1; for(int l = 0; l < m.nvc; ++l) used[m.cells[c * Index(m.nvc) + Index(l)]] = 1; }
        }
      }
      break;
    case 3: s.cls = "single"; mask[Index(t.raw() % uint32_t(nc))] = 1; break;
    case 4: s.cls = "pair"; mask[Index(t.raw() % uint32_t(nc))] = 1; mask[Index(nc - 1 - Index(t.raw() % uint32_t(nc)))] = 1; break;
    default: s.cls = "empty"; break;
    }
    for(Index i = 0; i < nc; ++i) if(mask[i]) s.cells.push_back(i);
    if(cls == 0) s.how = t.flag(1, 3) ? (t.flag() ? "elements" : "meshpart") : "all";
    else { int h = t.pick({ 2, 1, 1 }); s.how = h == 0 ? "elements" : (h == 1 ? "meshpart" : "both"); }
    return s;
  }

  /// hand the subset to the assembler the way the class says (both: overlapping mesh part + elements, added twice)
  template<typename Asm_, typename Mesh_> void apply_subset(Asm_& da, const Mesh_& mesh, const Subset& s)
  {
    constexpr int dim = Mesh_::shape_dim;
    if(s.how == "all") { da.compile_all_elements(); return; }
    auto add_part = [&](std::size_t beg, std::size_t end)
    {
      Index ne[dim + 1]; for(int d = 0; d <= dim; ++d) ne[d] = 0; ne[dim] = Index(end - beg);
      Geometry::MeshPart<Mesh_> part(ne, false);
      auto& trg = part.template get_target_set<dim>();
      for(std::size_t k = beg; k < end; ++k) trg[Index(k - beg)] = s.cells[k];
      da.add_mesh_part(part);
    };
    (void)mesh;
    if(s.how == "elements") { for(Index c : s.cells) da.add_element(c); }
    else if(s.how == "meshpart") { add_part(0, s.cells.size()); }
    else
    {
      std::size_t n = s.cells.size();
      add_part(0, (2 * n + 2) / 3);                                   // first two thirds as a part
      for(std::size_t k = n / 3; k < n; ++k) da.add_element(s.cells[k]); // last two thirds one by one (overlap in the middle)
      if(n > 0) da.add_element(s.cells[0]);                            // and one of them a second time
    }
    da.compile();
  }

  // ---------------------------------------------------------------------------------------------------
  // assembler with visible work distribution
  // ---------------------------------------------------------------------------------------------------
  template<typename Trafo_> class DA : public Assembly::DomainAssembler<Trafo_>
  {
  public:
    explicit DA(const Trafo_& trafo) : Assembly::DomainAssembler<Trafo_>(trafo) {}
    const std::vector<Index>& color_elements() const { return this->_color_elements; }
    const std::vector<Index>& layer_elements() const { return this->_layer_elements; }
    const std::vector<Index>& thread_layers() const { return this->_thread_layers; }
  };

  inline const char* strat_name(ThreadingStrategy s)
  {
    switch(s)
    {
    case ThreadingStrategy::automatic: return "automatic"; case ThreadingStrategy::single: return "single";
    case ThreadingStrategy::layered: return "layered"; case ThreadingStrategy::layered_sorted: return "layered_sorted";
    case ThreadingStrategy::colored: return "colored";
    }
    return "?";
  }

  /// vertex adjacency among cells (harness side, independent of feat3's graphs)
  struct Adj
  {
    std::vector<std::vector<Index>> cells_at_vert; const MeshSpec* m = nullptr;
    explicit Adj(const MeshSpec& ms) : cells_at_vert(ms.nv()), m(&ms)
    {
      for(Index c = 0; c < ms.nc(); ++c) for(int l = 0; l < ms.nvc; ++l) cells_at_vert[ms.cells[c * Index(ms.nvc) + Index(l)]].push_back(c);
    }
    bool adjacent(Index a, Index b) const
    {
      for(int i = 0; i < m->nvc; ++i) for(int j = 0; j < m->nvc; ++j) if(m->cells[a * Index(m->nvc) + Index(i)] == m->cells[b * Index(m->nvc) + Index(j)]) return true;
      return false;
    }
    /// calls f(a, b) for every ordered pair of distinct vertex-adjacent cells (possibly several times)
    template<typename F> void for_pairs(F f) const
    {
      for(auto& v : cells_at_vert) for(Index a : v) for(Index b : v) if(a != b) f(a, b);
    }
  };

  /// structure oracle (5): work distribution arrays satisfy what the worker functions rely on
  template<typename DA_> void check_structure(const DA_& da, const MeshSpec& ms, const Subset& sub, const Adj& adj, std::size_t max_workers)
  {
    const std::size_t nw = da.get_num_worker_threads(); const auto& ei = da.get_element_indices();
    VF_CHECK(nw <= max_workers, "structure: more workers than requested: " << nw << " > " << max_workers);
    // element list is a permutation of the selected cells
    {
      std::vector<Index> s(ei.begin(), ei.end()); std::sort(s.begin(), s.end());
      VF_CHECK(s == sub.cells, "structure: element list is not the selected cell set (" << s.size() << " vs " << sub.cells.size() << ")");
    }
    if(sub.cells.empty()) return;
    const ThreadingStrategy st = da.get_threading_strategy();
    VF_CHECK(st != ThreadingStrategy::automatic, "structure: strategy still automatic after compile");
    std::vector<long> pos(ms.nc(), -1);
    if((st == ThreadingStrategy::layered || st == ThreadingStrategy::layered_sorted) && max_workers > 0)
    {
      const auto& le = da.layer_elements(); const auto& tl = da.thread_layers();
      VF_CHECK(le.size() >= 2 && le.front() == 0 && le.back() == Index(ei.size()), "structure: layer offsets do not span the element list");
      for(std::size_t k = 0; k + 1 < le.size(); ++k) VF_CHECK(le[k] < le[k + 1], "structure: empty or decreasing layer " << k);
      const long nl = long(le.size()) - 1;
      for(long k = 0; k < nl; ++k) for(Index e = le[std::size_t(k)]; e < le[std::size_t(k) + 1]; ++e) pos[ei[e]] = k;
      // cells sharing a vertex lie in the same or in neighbouring layers
      adj.for_pairs([&](Index a, Index b) { if(pos[a] >= 0 && pos[b] >= 0) VF_CHECK(std::labs(pos[a] - pos[b]) <= 1, "structure: adjacent cells " << a << "," << b << " in layers " << pos[a] << "," << pos[b]); });
      // layers are BFS levels: a cell has a neighbour in the preceding (reversed: following) layer unless it starts a component
      {
        const long dir = (st == ThreadingStrategy::layered) ? -1 : +1;
        std::vector<char> has_prev(ms.nc(), 0), has_before(ms.nc(), 0);
        adj.for_pairs([&](Index a, Index b) { if(pos[a] < 0 || pos[b] < 0) return; if(pos[b] == pos[a] + dir) has_prev[a] = 1; if((pos[b] - pos[a]) * dir > 0) has_before[a] = 1; });
        for(Index c : sub.cells) VF_CHECK(has_prev[c] || !has_before[c], "structure: layer of cell " << c << " is not a BFS level");
      }
      if(nw > 0)
      {
        VF_CHECK(tl.size() == nw + 1 && tl.front() == 0 && long(tl.back()) == nl, "structure: thread layer offsets malformed (size " << tl.size() << ", workers " << nw << ")");
        for(std::size_t i = 0; i < nw; ++i) VF_CHECK(tl[i] < tl[i + 1] && (nw < 2 || tl[i] + 2 <= tl[i + 1]), "structure: worker " << i << " owns fewer than two layers");
      }
    }
    if(st == ThreadingStrategy::colored && max_workers > 0)
    {
      const auto& ce = da.color_elements();
      VF_CHECK(ce.size() >= 2 && ce.front() == 0 && ce.back() == Index(ei.size()), "structure: colour offsets do not span the element list");
      Index maxc = 0;
      for(std::size_t k = 0; k + 1 < ce.size(); ++k) { VF_CHECK(ce[k] <= ce[k + 1], "structure: decreasing colour offsets"); maxc = std::max(maxc, ce[k + 1] - ce[k]); for(Index e = ce[k]; e < ce[k + 1]; ++e) pos[ei[e]] = long(k); }
      adj.for_pairs([&](Index a, Index b) { if(pos[a] >= 0 && pos[b] >= 0) VF_CHECK(pos[a] != pos[b], "structure: adjacent cells " << a << "," << b << " share colour " << pos[a]); });
      VF_CHECK(nw <= std::size_t(maxc), "structure: more workers than cells in the largest colour");
    }
  }

  // ---------------------------------------------------------------------------------------------------
  // schedule perturbation + instrumentation
  // ---------------------------------------------------------------------------------------------------
  struct Sched
  {
    uint32_t seed = 0;
    int mode = 0;       // 0 none, 1 slow subset only, 2 slow subset during its first k cells, 3 slow subset after k cells, 4 jitter, 5 skew + jitter
    int base_us = 0;    // base nap
    int sites = 31;     // bit 0 start, 1 after assemble (= before the fence wait), 2 inside scatter (always on), 3 finish, 4 inside combine
    int slow_den = 2;   // one thread in slow_den is slow (factor 25)
    int k = 1;
    long budget_us = C17_TSAN ? 3000 : 8000;  // per task
    J json() const { J j = J::obj(); j.set("seed", (long long)seed); j.set("mode", mode); j.set("base_us", base_us); j.set("sites", sites); j.set("slow_den", slow_den); j.set("k", k); return j; }
  };

  inline Sched gen_sched(Tape& t, Index ncells)
  {
    Sched s; s.mode = t.pick({ 2, 4, 2, 2, 2, 3 });
    if(s.mode == 0) return s;
    static const int bases[] = { 100, 20, 50, 200 }; s.seed = t.raw(); s.base_us = bases[t.pick({ 4, 2, 1, 1 })];
    if(ncells > 256) s.base_us = std::min(s.base_us, 20);
    int sm = t.range(0, 31); s.sites = sm == 0 ? 31 : sm; s.slow_den = t.range(2, 3); s.k = t.range(1, 4);
    return s;
  }

  struct Ev { Index cell; long enter, leave; };
  struct TaskLog
  {
    std::vector<Ev> scat; std::vector<Index> done; std::string err;
    long c_enter = -1, c_leave = -1; int combines = 0; bool used = false;
  };

  struct Shared
  {
    static constexpr int cap = 64;
    std::atomic<long> clock{ 0 }, progress{ 0 }; std::atomic<int> nslots{ 0 }; std::atomic<bool> overflow{ false };
    std::vector<TaskLog> logs; Sched sched;
    Shared() : logs(cap) {}
    long tick() { return clock.fetch_add(1, std::memory_order_relaxed); }
  };

  /// the global progress counter the watchdog looks at (one job at a time per process)
  inline std::atomic<long>& progress_counter() { static std::atomic<long> p{ 0 }; return p; }

  template<typename Inner_> struct PJob
  {
    Inner_& inner; Shared& sh;
    PJob(Inner_& i, Shared& s) : inner(i), sh(s) {}

    class Task
    {
    public:
      static constexpr bool need_scatter = Inner_::Task::need_scatter;
      static constexpr bool need_combine = Inner_::Task::need_combine;
    private:
      Shared& sh; typename Inner_::Task in; TaskLog* log; TaskLog spill;
      int state = 0;   // 0 idle (expects prepare or combine), 1 prepared, 2 assembled, 3 scattered
      Index cur = 0; bool seeded = false, slow = false; Rng rng; long budget; std::size_t ndone = 0;
      void bad(const char* what) { if(log->err.empty()) { log->err = what; log->err += " in state " + std::to_string(state) + " cell " + std::to_string(cur); } }
      void nap(int site)
      {
        progress_counter().fetch_add(1, std::memory_order_relaxed);
        const Sched& s = sh.sched; if(s.mode == 0 || (site != 2 && !(s.sites & (1 << site)))) return;   // the nap inside scatter (site 2) is what gives the overlap oracle its window: always on
        long f = 1;
        switch(s.mode)
        {
        case 1: f = slow ? 25 : 0; break;
        case 2: f = (slow && ndone < std::size_t(s.k)) ? 25 : 0; break;
        case 3: f = (slow && ndone >= std::size_t(s.k)) ? 25 : 0; break;
        case 4: f = 1; break;
        default: f = slow ? 25 : 1; break;
        }
        long us = long(s.base_us) * f;
        if(s.mode >= 4) us = us * long(rng.below(256)) / 128;
        if(us <= 0) { if(s.mode >= 4) std::this_thread::yield(); return; }
        if(budget <= 0) { std::this_thread::yield(); return; }
        us = std::min(us, budget); budget -= us;
        std::this_thread::sleep_for(std::chrono::microseconds(us));
      }
    public:
      explicit Task(PJob& j) : sh(j.sh), in(j.inner), log(&spill), rng(1), budget(j.sh.sched.budget_us)
      {
        int slot = sh.nslots.fetch_add(1, std::memory_order_relaxed);
        if(slot < Shared::cap) log = &sh.logs[std::size_t(slot)]; else sh.overflow.store(true, std::memory_order_relaxed);
        log->used = true;
      }
      void prepare(Index cell)
      {
        if(state != 0) bad("prepare");
        cur = cell; state = 1;
        if(!seeded) { seeded = true; rng = Rng((uint64_t(sh.sched.seed) << 32) ^ uint64_t(cell) ^ 0x5bd1e995u); slow = rng.below(unsigned(sh.sched.slow_den)) == 0; nap(0); }
        in.prepare(cell);
      }
      void assemble() { if(state != 1) bad("assemble"); state = 2; in.assemble(); nap(1); }
      void scatter()
      {
        if(state != 2 || !need_scatter) bad("scatter"); state = 3;
        Ev e; e.cell = cur; e.enter = sh.tick();
        in.scatter(); nap(2);
        e.leave = sh.tick(); log->scat.push_back(e);
      }
      void finish()
      {
        if(state != (need_scatter ? 3 : 2)) bad("finish"); state = 0;
        in.finish(); log->done.push_back(cur); ++ndone; nap(3);
      }
      void combine()
      {
        if(state != 0 || !need_combine) bad("combine");
        log->c_enter = sh.tick(); in.combine(); nap(4); log->c_leave = sh.tick(); log->combines++;
      }
    };
  };

  /// oracles (2) + (3) on the logs of one assemble() call; returns statistics for the description
  struct LogStats { long tasks = 0, overlaps = 0, cells = 0; };
  inline LogStats check_logs(const Shared& sh, const Subset& sub, const Adj& adj, Index ncells, bool need_scatter, bool need_combine, std::size_t nw, const char* tag)
  {
    LogStats st;
    VF_CHECK(!sh.overflow.load(), tag << ": more than " << Shared::cap << " tasks created");
    std::vector<int> cnt_done(ncells, 0), cnt_scat(ncells, 0); std::vector<Ev> all; std::vector<std::pair<long, long>> comb;
    for(const auto& l : sh.logs)
    {
      if(!l.used) continue; ++st.tasks;
      VF_CHECK(l.err.empty(), tag << ": task protocol violated: unexpected " << l.err);
      for(Index c : l.done) { VF_CHECK(c < ncells, tag << ": cell index out of range"); cnt_done[c]++; }
      for(const Ev& e : l.scat) { cnt_scat[e.cell]++; all.push_back(e); }
      VF_CHECK(l.combines == (need_combine ? 1 : 0), tag << ": combine() called " << l.combines << " times by one task");
      if(l.combines) comb.emplace_back(l.c_enter, l.c_leave);
    }
    if(sub.cells.empty()) { VF_CHECK(st.tasks == 0, tag << ": tasks created for an empty cell set"); return st; }
    VF_CHECK(st.tasks == long(nw > 0 ? nw : 1), tag << ": " << st.tasks << " tasks for " << nw << " workers");
    std::vector<char> sel(ncells, 0); for(Index c : sub.cells) sel[c] = 1;
    for(Index c = 0; c < ncells; ++c)
    {
      VF_CHECK(cnt_done[c] == (sel[c] ? 1 : 0), tag << ": cell " << c << (sel[c] ? " (selected)" : " (not selected)") << " assembled " << cnt_done[c] << " times");
      VF_CHECK(cnt_scat[c] == ((sel[c] && need_scatter) ? 1 : 0), tag << ": cell " << c << " scattered " << cnt_scat[c] << " times");
    }
    st.cells = long(sub.cells.size());
    // (3) no two scatter intervals overlapping in logical time belong to vertex-adjacent cells
    std::sort(all.begin(), all.end(), [](const Ev& a, const Ev& b) { return a.enter < b.enter; });
    for(std::size_t i = 0; i < all.size(); ++i) for(std::size_t j = i + 1; j < all.size() && all[j].enter < all[i].leave; ++j)
    {
      ++st.overlaps;
      VF_CHECK(!adj.adjacent(all[i].cell, all[j].cell), tag << ": scatter of vertex-adjacent cells " << all[i].cell << " and " << all[j].cell << " overlapped in time");
    }
    std::sort(comb.begin(), comb.end());
    for(std::size_t i = 0; i + 1 < comb.size(); ++i) VF_CHECK(comb[i].second < comb[i + 1].first, tag << ": two combine() calls overlapped in time");
    return st;
  }

  /// A failure of a timing-dependent oracle (overlap, lost update, TSan) is a genuine observation, but rapidcheck's
  /// shrinker accepts every candidate that fails once and so drifts towards marginal cases that fail only now and
  /// then; the final 3-of-3 confirmation would then call a real race "flaky". A failing attempt is therefore repeated
  /// twice in the same child: reproduced at least once => reported under its own symptom ("mismatch:..."); observed
  /// only once => still reported, but under the distinct key "flaky-race:" (never silently dropped), which the
  /// shrinker of a reproducible failure does not follow.
  template<typename Attempt_> void confirm_in_child(Attempt_ attempt)
  {
    std::string e1 = attempt(); if(e1.empty()) return;
#if !C17_TSAN
    int again = 0; for(int k = 0; k < 2; ++k) if(!attempt().empty()) ++again;
    if(again == 0) throw vf::Fail{ "flaky-race:" + e1 + " (seen once, not reproduced in 2 further attempts)" };
#endif
    throw vf::Fail{ e1 };
  }

  // ---------------------------------------------------------------------------------------------------
  // progress watchdog. Deadlock = no instrumented call by any thread AND every other thread of the process is
  // asleep (state 'S' in /proc/self/task/*/stat) at every 10 ms sample for quiet_ms. A thread that is merely
  // starved by machine load is runnable ('R'), a legitimate nap lasts <= 5 ms and is followed by progress, so load
  // cannot fake a deadlock; the short window keeps the shrinking of a genuine hang affordable. Fallback: no
  // progress for wd_ms whatever the states. Reports like VF_FAIL would and ends the child.
  // ---------------------------------------------------------------------------------------------------
  /// leave the process at once (not through the sanitizer's _exit interceptor, which sleeps 1 s while other threads live)
  inline void hard_exit() { syscall(SYS_exit_group, 0); _exit(0); }

  inline bool all_other_threads_asleep()
  {
    const long self = long(syscall(SYS_gettid)); bool asleep = true;
    DIR* d = opendir("/proc/self/task"); if(!d) return false;
    while(struct dirent* e = readdir(d))
    {
      if(e->d_name[0] < '0' || e->d_name[0] > '9') continue; if(atol(e->d_name) == self) continue;
      char path[96]; snprintf(path, sizeof path, "/proc/self/task/%s/stat", e->d_name);
      int fd = open(path, O_RDONLY); if(fd < 0) continue; char buf[512]; ssize_t n = read(fd, buf, sizeof buf - 1); close(fd); if(n <= 0) continue; buf[n] = 0;
      const char* p = strrchr(buf, ')'); if(!p || !p[1] || !p[2]) continue;
      if(p[2] != 'S') { asleep = false; break; }
    }
    closedir(d); return asleep;
  }

  struct Watchdog
  {
    std::mutex mtx; std::condition_variable cv; bool stop = false; std::thread th;
    Watchdog(Ctx& c, int wd_ms, int quiet_ms = 150)
    {
      int fd = c.fd;
      th = std::thread([this, fd, wd_ms, quiet_ms]
      {
        long last = -1; auto t0 = std::chrono::steady_clock::now(); auto q0 = t0;
        std::unique_lock<std::mutex> lk(mtx);
        while(!stop)
        {
          cv.wait_for(lk, std::chrono::milliseconds(10)); if(stop) break;
          long p = progress_counter().load(std::memory_order_relaxed); auto now = std::chrono::steady_clock::now();
          if(p != last) { last = p; t0 = now; q0 = now; continue; }
          if(!all_other_threads_asleep()) q0 = now;
          auto ms = [&](std::chrono::steady_clock::time_point a) { return std::chrono::duration_cast<std::chrono::milliseconds>(now - a).count(); };
          if(ms(q0) > quiet_ms || ms(t0) > wd_ms)
          {
            J m = J::obj(); m.set("verdict", "fail"); m.set("sym", std::string("hang:no thread made progress and ") + (ms(q0) > quiet_ms ? "all were blocked (deadlock)" : "the time limit passed")); m.set("overrun", 0);
            std::string s = "V" + m.str() + "\n"; (void)!write(fd, s.data(), s.size()); hard_exit();
          }
        }
      });
    }
    ~Watchdog() { { std::lock_guard<std::mutex> lk(mtx); stop = true; } cv.notify_all(); th.join(); }
  };

  // ---------------------------------------------------------------------------------------------------
  // configuration of one assembler
  // ---------------------------------------------------------------------------------------------------
  struct Cfg { ThreadingStrategy strat = ThreadingStrategy::automatic; std::size_t maxw = 0; int mesh_perm = 0; };

  inline const char* perm_name(int p) { static const char* n[] = { "none", "colored", "cmk", "cmk_rev", "random", "lexi" }; return n[p]; }
  inline Geometry::PermutationStrategy perm_of(int p)
  {
    switch(p)
    {
    case 1: return Geometry::PermutationStrategy::colored; case 2: return Geometry::PermutationStrategy::cuthill_mckee;
    case 3: return Geometry::PermutationStrategy::cuthill_mckee_reversed; case 4: return Geometry::PermutationStrategy::random;
    case 5: return Geometry::PermutationStrategy::lexicographic; default: return Geometry::PermutationStrategy::none;
    }
  }

  inline Cfg gen_cfg(Tape& t, Index ncells_selected, bool threaded_bias)
  {
    Cfg c;
    static const ThreadingStrategy ss[] = { ThreadingStrategy::layered, ThreadingStrategy::colored, ThreadingStrategy::layered_sorted, ThreadingStrategy::automatic, ThreadingStrategy::single };
    c.strat = ss[t.pick({ 5, 5, 4, 3, 1 })];
    int wc = threaded_bias ? t.pick({ 6, 4, 2, 1, 1, 1 }) : t.pick({ 3, 3, 3, 2, 2, 2 });  // 2..4, 5..8, 9..24, >cells, 1, 0
    switch(wc)
    {
    case 0: c.maxw = std::size_t(t.range(2, 4)); break; case 1: c.maxw = std::size_t(t.range(5, 8)); break; case 2: c.maxw = std::size_t(t.range(9, 24)); break;
    case 3: c.maxw = std::min<std::size_t>(24, std::size_t(ncells_selected) + std::size_t(t.range(1, 3))); break;
    case 4: c.maxw = 1; break; default: c.maxw = 0; break;
    }
    return c;
  }

  /// mesh permutation choice (0 none, 1 colored, 2 cmk, 3 cmk reversed, 4 random, 5 lexicographic)
  inline int choose_perm(Tape& t, const MeshSpec& ms)
  {
    int mesh_perm = t.pick({ 6, 3, 1, 1, 1, 1 });
    // domain fact (not C17's subject, bycatch noted in findings/C17.md): the algebraic Cuthill-McKee mesh permutations
    // (MeshPermutation::create_cmk -> CuthillMcKee::compute with RootType::minimum_degree on an 'injectify' graph that
    // keeps duplicates and self-loops) abort with "No root node found!" as soon as every unprocessed cell has
    // degree-with-duplicates >= num_cells + 1, e.g. a 2-cell line; cmk permutations are only requested when no cell
    // reaches that degree; the same abort was seen on disconnected meshes (3 blocks of 2 line cells, all degrees 3),
    // so multi-block meshes keep their numbering as well
    if((mesh_perm == 2 || mesh_perm == 3) && ms.desc.geti("blocks", 1) > 1) mesh_perm = 0;
    if(mesh_perm == 2 || mesh_perm == 3)
    {
      Adj a0(ms);
      for(Index cl = 0; cl < ms.nc() && mesh_perm != 0; ++cl)
      {
        std::size_t deg = 0; for(int l = 0; l < ms.nvc; ++l) deg += a0.cells_at_vert[ms.cells[cl * Index(ms.nvc) + Index(l)]].size();
        if(deg >= std::size_t(ms.nc()) + 1u) mesh_perm = 0;
      }
    }
    return mesh_perm;
  }

  template<typename Mesh_> void apply_perm(Mesh_& mesh, MeshSpec& ms, int mesh_perm)
  {
    constexpr int dim = Mesh_::shape_dim;
    if(mesh_perm != 0)
    {
      mesh.create_permutation(perm_of(mesh_perm));
      // cell/vertex numbers changed: read the effective numbering back (subset, adjacency and checksums use it)
      const auto& idx = mesh.template get_index_set<dim, 0>(); const auto& vtx = mesh.get_vertex_set();
      for(Index cl = 0; cl < ms.nc(); ++cl) for(int l = 0; l < ms.nvc; ++l) ms.cells[cl * Index(ms.nvc) + Index(l)] = idx[cl][l];
      for(Index v = 0; v < ms.nv(); ++v) for(int d = 0; d < dim; ++d) ms.xy[v * Index(dim) + Index(d)] = vtx[v][d];
    }
    ms.desc.set("mesh_perm", perm_name(mesh_perm));
  }

  /// bounded vertex jitter (2D): every vertex moves by at most 0.15 x the distance to its nearest cell-mate, which
  /// keeps the generated quads convex and positively oriented
  inline void jitter2d(MeshSpec& ms, uint32_t seed)
  {
    if(seed == 0 || ms.dim != 2) return;
    std::vector<double> rad(ms.nv(), 1e300);
    for(Index c = 0; c < ms.nc(); ++c) for(int i = 0; i < ms.nvc; ++i) for(int j = 0; j < ms.nvc; ++j)
    {
      Index a = ms.cells[c * Index(ms.nvc) + Index(i)], b = ms.cells[c * Index(ms.nvc) + Index(j)]; if(a == b) continue;
      double d = std::hypot(ms.xy[2 * a] - ms.xy[2 * b], ms.xy[2 * a + 1] - ms.xy[2 * b + 1]); rad[a] = std::min(rad[a], d);
    }
    Rng r(seed);
    for(Index v = 0; v < ms.nv(); ++v)
    {
      double ang = 6.283185307179586 * double(r.below(4096)) / 4096.0, len = 0.15 * rad[v] * double(r.below(1024)) / 1024.0;
      if(rad[v] > 1e299) continue;
      ms.xy[2 * v] += len * std::cos(ang); ms.xy[2 * v + 1] += len * std::sin(ang);
    }
  }

  inline std::string workers_class(std::size_t nw) { return nw == 0 ? "workers:0" : nw == 1 ? "workers:1" : nw == 2 ? "workers:2" : nw <= 4 ? "workers:3-4" : nw <= 8 ? "workers:5-8" : "workers:9+"; }
} // namespace c17

#if C17_TSAN
extern "C" int __tsan_get_report_data(void* report, const char** description, int* count, int* stack_count, int* mop_count, int* loc_count,
                                      int* mutex_count, int* thread_count, int* unique_tid_count, void** sleep_trace, unsigned long trace_size);
#endif
