// c10_core.hpp - oracles and targets of property C10 (refinement conformity, mesh-part child relation, boundary
// factory, mesh permutations), templated on the shape so that every shape compiles in its own translation unit.
#pragma once
#include "mesh_gen.hpp"
#include <kernel/geometry/patch_mesh_factory.hpp>

namespace c10
{
  using namespace mg;
  using FEAT::Geometry::AdaptMode;
  using FEAT::Geometry::PermutationStrategy;

  // ------------------------------------------------------------------------------------------------------------
  // documented numbering of the 2-level refinement: fine entities of dimension d are ordered by the dimension D of
  // the coarse entity whose interior they lie in (D = d, d+1, ...), then by the index E of that entity
  // ------------------------------------------------------------------------------------------------------------
  struct Loc { int D; Index E; int k; };
  inline Index fine_count(bool simplex, int sd, const Index* nc, int d) { Index s = 0; for(int D = d; D <= sd; ++D) s += Index(ref_count(simplex, D, d)) * nc[D]; return s; }
  inline Loc locate(bool simplex, int sd, const Index* nc, int d, Index i)
  {
    for(int D = d; D <= sd; ++D)
    {
      const Index rc = Index(ref_count(simplex, D, d)); const Index cnt = rc * nc[D];
      if(i < cnt) return Loc{D, i / rc, int(i % rc)};
      i -= cnt;
    }
    return Loc{-1, 0, 0};
  }
  inline bool in_closure(const Flat& c, int D, Index E, int p, Index j)
  {
    if(p > D) return false;
    if(p == D) return j == E;
    for(int k = 0; k < c.nc[D][p]; ++k) if(c.at(D, p, E, k) == j) return true;
    return false;
  }

  struct RefOpts { bool geometry = true; bool orientation = true; };

  /// oracles (1)-(5) of the design for one refinement step coarse C -> fine F
  inline void check_refine(const Flat& C, const Flat& F, const RefOpts& o, const std::string& ctx)
  {
    const bool sx = C.simplex; const int sd = C.sd;
    // (1) entity counts
    for(int d = 0; d <= sd; ++d)
      VF_CHECK(F.n[d] == fine_count(sx, sd, C.n, d), ctx << " count of " << d << "-entities is " << F.n[d] << ", refinement formula gives " << fine_count(sx, sd, C.n, d));
    // (2),(3) structural validity incl. facet adjacency and neighbour set
    { std::string s = validate(F); VF_CHECK(s.empty(), ctx << " refined mesh: " << s); }
    // (4) Euler characteristic
    VF_CHECK(C.euler() == F.euler(), ctx << " Euler characteristic " << C.euler() << " -> " << F.euler());
    // child structure: every fine entity lies in the closure of its positional parent and in no proper face of it
    for(int d = 0; d <= sd; ++d) for(Index i = 0; i < F.n[d]; ++i)
    {
      const Loc lc = locate(sx, sd, C.n, d, i);
      VF_CHECK(lc.D >= 0, ctx << " fine entity out of blocks");
      const std::vector<Index> fv = F.verts(d, i);
      std::vector<Loc> par; for(Index v : fv) par.push_back(locate(sx, sd, C.n, 0, v));
      for(size_t q = 0; q < par.size(); ++q)
        VF_CHECK(in_closure(C, lc.D, lc.E, par[q].D, par[q].E), ctx << " fine " << d << "-entity " << i << " (child " << lc.k << " of coarse " << lc.D << "-entity " << lc.E << ") has vertex " << fv[q] << " created on coarse " << par[q].D << "-entity " << par[q].E << ", which is not a face of the parent");
      if(lc.D > d && lc.D >= 1)
      {
        for(int fk = 0; fk < C.nc[lc.D][lc.D - 1]; ++fk)
        {
          const Index fc = C.at(lc.D, lc.D - 1, lc.E, fk); bool all = true;
          for(auto& p : par) if(!in_closure(C, lc.D - 1, fc, p.D, p.E)) { all = false; break; }
          VF_CHECK(!all, ctx << " fine " << d << "-entity " << i << " is numbered as interior child of coarse " << lc.D << "-entity " << lc.E << " but lies completely in its face " << fc);
        }
      }
    }
    // facet adjacency is inherited: children of a facet keep its count, facets inside a cell have two cells
    {
      auto cc = facet_counts(C), fc = facet_counts(F);
      for(Index i = 0; i < F.n[sd - 1]; ++i)
      {
        const Loc lc = locate(sx, sd, C.n, sd - 1, i); const int want = (lc.D == sd) ? 2 : cc[lc.E];
        VF_CHECK(fc[i] == want, ctx << " fine facet " << i << " has " << fc[i] << " adjacent cells, its parent (" << lc.D << "-entity " << lc.E << ") implies " << want);
      }
    }
    if(!o.geometry) return;
    // new vertices are the barycentres of their parents (AdaptMode::none)
    const long double u = std::numeric_limits<double>::epsilon() / 2;
    for(Index v = 0; v < F.n[0]; ++v)
    {
      const Loc lc = locate(sx, sd, C.n, 0, v); const std::vector<Index> pv = C.verts(lc.D, lc.E);
      for(int r = 0; r < sd; ++r)
      {
        long double s = 0, mx = 0; for(Index w : pv) { s += (long double)C.vtx[w][size_t(r)]; mx = std::max(mx, (long double)std::fabs(C.vtx[w][size_t(r)])); }
        s /= (long double)pv.size(); const long double tol = 2.0L * (long double)(pv.size() + 2) * u * mx + 1e-300L;
        VF_CHECK(std::fabs((long double)F.vtx[v][size_t(r)] - s) <= tol, ctx << " fine vertex " << v << " coordinate " << r << " is " << F.vtx[v][size_t(r)] << ", barycentre of its parent is " << (double)s);
      }
    }
    // (5) volume: the children of every coarse cell fill exactly its volume;
    // tolerance per coarse cell: 64*u*(nchildren+1)*cmax*hmax^(sd-1) + 16*u*|vol|  (coordinates carry a rounding error of
    // u*cmax, which changes a cell volume by at most const*hmax^(sd-1) times that)
    const Index rc = Index(ref_count(sx, sd, sd));
    long double totc = 0, totf = 0, tott = 0;
    for(Index E = 0; E < C.n[sd]; ++E)
    {
      const long double vc = cell_volume(C, E); long double vf_ = 0; for(Index k = 0; k < rc; ++k) vf_ += cell_volume(F, E * rc + k);
      long double hmax, cmax; cell_scales(C, E, hmax, cmax); long double hp = 1; for(int a = 0; a < sd - 1; ++a) hp *= hmax;
      const long double tol = 64.0L * u * (long double)(rc + 1) * cmax * hp + 16.0L * u * std::fabs(vc) + 1e-300L;
      VF_CHECK(std::fabs(vc - vf_) <= tol, ctx << " volume of coarse cell " << E << " is " << (double)vc << " but its " << rc << " children sum to " << (double)vf_ << " (tol " << (double)tol << ")");
      totc += vc; totf += vf_; tott += tol;
    }
    VF_CHECK(std::fabs(totc - totf) <= tott, ctx << " total volume " << (double)totc << " -> " << (double)totf);
    // orientation: every child has the sign of its parent at all of its vertices
    if(o.orientation)
    {
      for(Index E = 0; E < C.n[sd]; ++E)
      {
        int mixp = 0; const long double jp = min_rel_jac(C, E, 1, &mixp);
        for(Index k = 0; k < rc; ++k)
        {
          int mix = 0; const long double jc = min_rel_jac(F, E * rc + k, 1, &mix);
          VF_CHECK(!mix && ((jp > 0) == (jc > 0)) && jc != 0, ctx << " orientation: coarse cell " << E << " has vertex Jacobians of sign " << (jp > 0 ? "+" : "-") << " but child " << k << " (fine cell " << (E * rc + k) << ") has relative det J " << (double)jc << (mix ? " with mixed signs" : ""));
        }
      }
    }
  }

  /// oracle (6): refined mesh part PF of coarse part PC; C/F the coarse/fine parent meshes
  inline void check_part(const Flat& C, const Flat& F, const FlatPart& PC, const FlatPart& PF, const std::string& ctx)
  {
    const bool sx = C.simplex; const int sd = C.sd;
    VF_CHECK(PC.topo == PF.topo, ctx << " coarse part " << (PC.topo ? "has" : "has no") << " topology but the refined part " << (PF.topo ? "has" : "has none"));
    for(int d = 0; d <= sd; ++d)
      VF_CHECK(PF.n[d] == fine_count(sx, sd, PC.n, d), ctx << " refined part has " << PF.n[d] << " entities of dimension " << d << ", formula on the coarse part gives " << fine_count(sx, sd, PC.n, d));
    { std::string s = validate_part(PF, F); VF_CHECK(s.empty(), ctx << " refined part: " << s); }
    for(int d = 0; d <= sd; ++d)
    {
      std::map<std::pair<int, Index>, std::set<Index>> groups;
      for(Index i = 0; i < PF.n[d]; ++i)
      {
        const Loc pl = locate(sx, sd, PC.n, d, i);        // parent inside the part numbering
        const Index t = PF.trg[d][i];
        const Loc ml = locate(sx, sd, C.n, d, t);          // parent of the target inside the mesh numbering
        const Index want = PC.trg[pl.D][pl.E];
        VF_CHECK(ml.D == pl.D && ml.E == want, ctx << " refined part " << d << "-entity " << i << " (child " << pl.k << " of part " << pl.D << "-entity " << pl.E << ", attached to mesh entity " << want << ") maps to fine mesh entity " << t << ", which is a child of coarse " << ml.D << "-entity " << ml.E);
        const bool fresh = groups[std::make_pair(pl.D, pl.E)].insert(t).second;
        VF_CHECK(fresh, ctx << " two children of part " << pl.D << "-entity " << pl.E << " map to the same fine " << d << "-entity " << t);
      }
    }
  }

  /// oracle (7): BoundaryFactory == closure of the facets with exactly one adjacent cell
  template<typename Shape_> inline void check_boundary_factory(const MeshOf<Shape_>& m, const Flat& f, const std::string& ctx)
  {
    FEAT::Geometry::BoundaryFactory<MeshOf<Shape_>> bf(m); PartOf<Shape_> bp(bf); FlatPart b = flatten_part<Shape_>(bp);
    auto want = boundary_closure(f);
    VF_CHECK(!b.topo && b.n[f.sd] == 0, ctx << " boundary part has cells or a topology");
    for(int d = 0; d < f.sd; ++d)
    {
      std::vector<Index> got = b.trg[d]; std::sort(got.begin(), got.end());
      VF_CHECK(std::adjacent_find(got.begin(), got.end()) == got.end(), ctx << " boundary part lists a " << d << "-entity twice");
      VF_CHECK(got == want[size_t(d)], ctx << " boundary part has " << got.size() << " entities of dimension " << d << ", the closure of the one-cell facets has " << want[size_t(d)].size());
    }
  }

  // ------------------------------------------------------------------------------------------------------------
  // generated mesh parts
  // ------------------------------------------------------------------------------------------------------------
  struct PartSpec
  {
    std::string kind; int sd = 2; Index n[4] = {0, 0, 0, 0}; std::vector<Index> trg[4];
    bool topo = false, parent_topo = false; std::vector<std::vector<Index>> lv[4]; int dup = 0, flipped = 0;
    vf::J json() const
    {
      vf::J j = vf::J::obj(); j.set("kind", kind); vf::J s = vf::J::arr(); for(int d = 0; d <= sd; ++d) s.add((long long)n[d]); j.set("size", s);
      size_t tot = 0; for(int d = 0; d <= sd; ++d) tot += trg[d].size();
      if(tot <= 40) { vf::J tj = vf::J::arr(); for(int d = 0; d <= sd; ++d) tj.add(vf::J(std::vector<unsigned long>(trg[d].begin(), trg[d].end()))); j.set("targets", tj);
        if(topo && !parent_topo) { vf::J lj = vf::J::arr(); for(int d = 1; d <= sd; ++d) { vf::J a = vf::J::arr(); for(auto& x : lv[d]) a.add(vf::J(std::vector<unsigned long>(x.begin(), x.end()))); lj.add(a); } j.set("topology", lj); } }
      if(dup) j.set("seam_duplicates", dup); if(flipped) j.set("reoriented_entities", flipped);
      return j;
    }
  };

  /// kind: 0 closed sub-complex without topology, 1 arbitrary (not closed) target sets without topology,
  ///       2 closed sub-complex with own ("full") topology and per-entity random orientation, 3 topology deducted from the parent
  inline PartSpec gen_part_spec(vf::Tape& t, const Flat& m, int kind)
  {
    PartSpec ps; ps.sd = m.sd; static const char* kn[4] = {"closed", "open", "topo-full", "topo-parent"}; ps.kind = kn[kind];
    const int sd = m.sd;
    auto choose = [&](int D, int kmax) -> std::vector<Index>
    {
      const Index nD = m.n[D]; if(nD == 0) return {};
      int k = 1 + t.range(0, std::min<int>(int(nD), kmax) - 1);
      std::vector<Index> all((size_t)nD); std::iota(all.begin(), all.end(), Index(0)); Chooser ch(t, size_t(k), 16);
      for(int i = 0; i < k; ++i) { size_t j = size_t(i) + ch.pick(unsigned(all.size() - size_t(i))); std::swap(all[size_t(i)], all[j]); }
      all.resize(size_t(k)); return all;
    };
    const int kmax = 2 + t.size / 8;
    if(kind == 1)
    {
      bool any = false;
      for(int d = 0; d <= sd; ++d) if(t.flag()) { ps.trg[d] = choose(d, kmax); any = true; }
      if(!any) ps.trg[sd] = choose(sd, kmax);
    }
    else
    {
      // StandardTargetRefiner<Hypercube<3>/Simplex<3>, 3> is "not implemented" (XASSERTM) for parts with topology:
      // such parts hold at most faces (documented limitation, all shipped 3-D parts with topology are surface parts)
      const int dtop_max = (kind >= 2) ? std::min(sd, 2) : sd; const int dtop_min = (kind >= 2) ? 1 : 0;
      const int D = dtop_min + t.range(0, dtop_max - dtop_min);
      std::set<Index> sets[4]; for(Index e : choose(D, kmax)) sets[D].insert(e);
      for(int d = D - 1; d >= 0; --d) for(Index e : sets[D]) for(int k = 0; k < m.nc[D][d]; ++k) sets[d].insert(m.at(D, d, e, k));
      const bool shuffle = t.flag();
      for(int d = 0; d <= D; ++d)
      {
        ps.trg[d].assign(sets[d].begin(), sets[d].end());
        if(shuffle) { Chooser ch(t, ps.trg[d].size(), 16); for(size_t i = 0; i + 1 < ps.trg[d].size(); ++i) { size_t j = i + ch.pick(unsigned(ps.trg[d].size() - i)); std::swap(ps.trg[d][i], ps.trg[d][j]); } }
      }
      if(kind >= 2)
      {
        ps.topo = true; ps.parent_topo = (kind == 3);
        if(kind == 2)
        {
          std::map<Index, Index> loc; for(size_t i = 0; i < ps.trg[0].size(); ++i) loc[ps.trg[0][i]] = Index(i);
          const bool reorient_entities = t.flag(2, 3);
          for(int d = 1; d <= D; ++d)
          {
            const auto& sy = syms(m.simplex, d); Chooser ch(t, ps.trg[d].size(), 16);
            for(Index e : ps.trg[d])
            {
              const unsigned s = reorient_entities ? ch.pick(unsigned(sy.size())) : 0u; if(s) ++ps.flipped;
              std::vector<Index> pv = m.verts(d, e), l(pv.size()); for(size_t k = 0; k < pv.size(); ++k) l[k] = loc[pv[size_t(sy[s].p[k])]];
              ps.lv[d].push_back(l);
            }
          }
          // seam duplicate (closed-chart parts list their start vertex twice): only for 1-D parts
          if(D == 1 && t.flag(1, 3))
          {
            std::map<Index, std::vector<size_t>> inc; for(size_t i = 0; i < ps.lv[1].size(); ++i) for(Index v : ps.lv[1][i]) inc[v].push_back(i);
            for(auto& kv : inc) if(kv.second.size() >= 2)
            {
              const Index nv = Index(ps.trg[0].size()); ps.trg[0].push_back(ps.trg[0][kv.first]);
              for(Index& v : ps.lv[1][kv.second[1]]) if(v == kv.first) v = nv;
              ps.dup = 1; break;
            }
          }
        }
      }
    }
    for(int d = 0; d <= sd; ++d) ps.n[d] = Index(ps.trg[d].size());
    return ps;
  }

  template<typename Shape_, int d> struct PartFill
  {
    static void run(PartOf<Shape_>& p, const PartSpec& ps, bool topo)
    {
      auto& t = p.template get_target_set<d>(); for(Index i = 0; i < ps.n[d]; ++i) t[i] = ps.trg[d][i];
      if constexpr(d >= 1)
      {
        if(topo && ps.n[d] > 0)
        {
          auto& is = p.template get_index_set<d, 0>();
          for(Index i = 0; i < ps.n[d]; ++i) for(int k = 0; k < is.num_indices; ++k) is(i, k) = ps.lv[d][i][size_t(k)];
        }
      }
      if constexpr(d < Shape_::dimension) PartFill<Shape_, d + 1>::run(p, ps, topo);
    }
  };

  /// builds the feat3 mesh part the way the mesh file reader does (MeshPartParser: constructor with sizes, target sets,
  /// vertex-at-entity topology, RedundantIndexSetBuilder; topology="parent": deduct_topology)
  template<typename Shape_> inline std::unique_ptr<PartOf<Shape_>> build_part(const PartSpec& ps, const MeshOf<Shape_>& mesh)
  {
    std::unique_ptr<PartOf<Shape_>> p(new PartOf<Shape_>(ps.n, ps.topo));
    PartFill<Shape_, 0>::run(*p, ps, ps.topo && !ps.parent_topo);
    if(ps.topo && !ps.parent_topo) FEAT::Geometry::RedundantIndexSetBuilder<Shape_>::compute(*p->get_topology());
    if(ps.topo && ps.parent_topo) p->deduct_topology(*mesh.get_topology());
    return p;
  }

  template<typename Shape_> struct PartRef { std::string name; const PartOf<Shape_>* p; };
  template<typename Shape_> inline std::vector<PartRef<Shape_>> collect_parts(const NodeOf<Shape_>& n)
  {
    std::vector<PartRef<Shape_>> r;
    for(auto& nm : n.get_mesh_part_names()) r.push_back({"part:" + nm, n.find_mesh_part(nm)});
    for(auto& kv : n.get_halo_map()) r.push_back({"halo:" + std::to_string(kv.first), kv.second.get()});
    for(auto& kv : n.get_patch_map()) r.push_back({"patch:" + std::to_string(kv.first), kv.second.get()});
    return r;
  }

  /// random cell -> rank assignment with every rank non-empty, as Adjacency::Graph elems_at_rank (G-partition, random class)
  inline FEAT::Adjacency::Graph gen_partition(vf::Tape& t, Index ncells, int nranks, std::vector<int>& rank_of)
  {
    rank_of.assign(size_t(ncells), 0); Chooser ch(t, size_t(ncells), 64);
    for(Index i = 0; i < ncells; ++i) rank_of[i] = (i < Index(nranks)) ? int(i) : int(ch.pick(unsigned(nranks)));
    // move the guaranteed cells to tape-chosen places so that rank r is not always cell r
    for(Index i = 0; i < Index(nranks); ++i) { Index j = i + Index(ch.pick(unsigned(ncells - i))); std::swap(rank_of[i], rank_of[j]); }
    std::vector<Index> ptr(size_t(nranks) + 1, 0), idx((size_t)ncells);
    for(Index i = 0; i < ncells; ++i) ptr[size_t(rank_of[i]) + 1]++;
    for(int r = 0; r < nranks; ++r) ptr[size_t(r) + 1] += ptr[size_t(r)];
    { std::vector<Index> pos(ptr.begin(), ptr.end() - 1); for(Index i = 0; i < ncells; ++i) idx[pos[size_t(rank_of[i])]++] = i; }
    return FEAT::Adjacency::Graph(Index(nranks), ncells, ncells, ptr.data(), idx.data());
  }

  // ------------------------------------------------------------------------------------------------------------
  // target: refine
  // ------------------------------------------------------------------------------------------------------------
  template<typename Shape_> inline bool shares_facet(const Flat& f) { for(int c : facet_counts(f)) if(c == 2) return true; return false; }

  template<typename Shape_> inline void run_levels(vf::Ctx& c, std::unique_ptr<NodeOf<Shape_>> node, bool neigh_valid, int depth, AdaptMode mode, bool geometry, long cell_cap)
  {
    constexpr int sd = Shape_::dimension;
    Flat C = flatten<Shape_>(*node->get_mesh(), neigh_valid);
    RefOpts ro; ro.geometry = geometry; ro.orientation = geometry && orientation_margin_ok(C, depth, 1e-9L);
    {
      // input must be a valid conforming mesh and its parts must be consistent with it.  Every input reaching this point was
      // built by feat3 code from data that is valid by construction (raw meshes, shipped files, factories, extract_patch),
      // so an inconsistency here is a failure of that code, not a discard.
      std::string s = validate(C); VF_CHECK(s.empty(), "input mesh: " << s);
      for(auto& pr : collect_parts<Shape_>(*node)) if(pr.p) { std::string ps = validate_part(flatten_part<Shape_>(*pr.p), C); VF_CHECK(ps.empty(), "input " << pr.name << ": " << ps); }
    }
    check_boundary_factory<Shape_>(*node->get_mesh(), C, "L0 boundary factory:");
    for(int l = 0; l < depth; ++l)
    {
      if(long(C.n[sd]) * long(ref_count(C.simplex, sd, sd)) > cell_cap) break;
      const std::string ctx = "L" + std::to_string(l) + "->" + std::to_string(l + 1);
      std::unique_ptr<NodeOf<Shape_>> fine = node->refine_unique(mode);
      Flat F = flatten<Shape_>(*fine->get_mesh(), true);
      check_refine(C, F, ro, ctx);
      auto pc = collect_parts<Shape_>(*node); auto pf = collect_parts<Shape_>(*fine);
      VF_CHECK(pc.size() == pf.size(), ctx << " node has " << pc.size() << " parts/halos/patches, refined node " << pf.size());
      for(size_t i = 0; i < pc.size(); ++i)
      {
        VF_CHECK(pc[i].name == pf[i].name, ctx << " part " << pc[i].name << " became " << pf[i].name);
        VF_CHECK((pc[i].p == nullptr) == (pf[i].p == nullptr), ctx << " " << pc[i].name << ": null-ness changed under refinement");
        if(!pc[i].p) continue;
        check_part(C, F, flatten_part<Shape_>(*pc[i].p), flatten_part<Shape_>(*pf[i].p), ctx + " " + pc[i].name);
      }
      check_boundary_factory<Shape_>(*fine->get_mesh(), F, "L" + std::to_string(l + 1) + " boundary factory:");
      node = std::move(fine); C = std::move(F);
    }
  }

  inline void fail_if_invalid(vf::Ctx& c, const GenInfo& gi)
  {
    if(gi.invalid.empty()) return;
    c.nontrivial = true; c.op = "build:" + gi.build; c.announce();
    VF_FAIL("mismatch:feat3 mesh built from a valid raw mesh (" << gi.build << ") is inconsistent: " << gi.invalid);
  }

  template<typename Shape_> inline void refine_case(vf::Tape& t, vf::Ctx& c)
  {
    constexpr int sd = Shape_::dimension;
    { static const std::string sc = selfcheck_tables(); if(!sc.empty()) throw std::runtime_error("harness reference tables disagree with FaceIndexMapping: " + sc); }
    GenOpts go; go.max_file_cells = (sd == 2 ? 40 + 3 * t.size : 10 + t.size); go.lattice_depth = 3;
    GenInfo gi; Loaded<Shape_> L = gen_node<Shape_>(t, c, go, gi);
    c.desc = gi.desc; c.desc.set("shape", ShapeInfo<Shape_>::name()); c.label(std::string("shape:") + ShapeInfo<Shape_>::name());
    fail_if_invalid(c, gi);
    int depth = 1 + t.range(0, 2);
    const long cell_cap = (sd == 2 ? 200L : 150L) * std::max(t.size, 10);
    Flat base = flatten<Shape_>(*L.node->get_mesh(), false);
    bool nontrivial = shares_facet<Shape_>(base) || gi.reoriented > 0;
    // generated parts (specifications first: pure harness code; the feat3 objects are built after announce())
    std::vector<PartSpec> specs; vf::J pj = vf::J::arr(); int nparts = t.pick({2, 3, 2, 1});
    for(int k = 0; k < nparts; ++k)
    {
      const int kind = t.pick({2, 2, 3, 2}); specs.push_back(gen_part_spec(t, base, kind)); const PartSpec& ps = specs.back();
      pj.add(ps.json()); c.label("part:" + ps.kind); if(ps.dup) c.label("part:seam-duplicate"); if(ps.flipped) c.label("part:reoriented-entities");
    }
    if(nparts) c.desc.set("parts", pj);
    const bool with_bnd = t.flag(1, 3); if(with_bnd) { c.label("part:boundary-factory"); c.desc.set("boundary_part", true); ++nparts; }
    if(gi.file_unmodified && gi.src == "file") { int np = int(L.node->get_mesh_part_names().size()); if(np > 0) { c.label("part:shipped"); nparts += np; } }
    // optionally continue with a patch of the mesh (halos + split mesh parts + patch parts refine alongside)
    int nranks = 0, rank = 0; std::vector<int> rank_of; FEAT::Adjacency::Graph ear;
    if(base.n[sd] >= 2 && t.flag(1, 4))
    {
      nranks = 2 + t.range(0, std::min<int>(int(base.n[sd]), 5) - 2); ear = gen_partition(t, base.n[sd], nranks, rank_of); rank = t.range(0, nranks - 1);
      c.label("part:halo+patch"); vf::J q = vf::J::obj(); q.set("ranks", nranks); q.set("rank", rank); if(rank_of.size() <= 40) q.set("rank_of_cell", vf::J(rank_of)); c.desc.set("patch", q);
      nparts += 1;
    }
    AdaptMode mode = AdaptMode::none; bool geometry = true;
    if(gi.file_unmodified && gi.src == "file" && t.flag(1, 3)) { mode = AdaptMode::chart; geometry = false; }
    // AdaptMode::dual re-computes every cell-midpoint vertex of a hypercube mesh as the mean of the facet midpoints of the parent
    // cell - which IS the vertex mean (each vertex lies in dim of the 2*dim facets), so without charts the result must be the
    // plain refinement and all geometric claims stay in force
    const bool dual = (mode == AdaptMode::none) && t.flag(1, 3);
    if(dual) mode = AdaptMode::dual;
    c.desc.set("depth", depth); c.desc.set("adapt", mode == AdaptMode::chart ? "chart" : (dual ? "dual" : "none"));
    c.label("depth:" + std::to_string(depth)); c.label(mode == AdaptMode::chart ? "adapt:chart" : (dual ? "adapt:dual" : "adapt:none"));
    // which geometric claims this case can carry (run_levels applies the same rule)
    { c.label(!geometry ? "geom:topology-only" : (orientation_margin_ok(base, depth, 1e-9L) ? "geom:volume+orientation" : "geom:volume-only")); }
    c.nontrivial = nontrivial || nparts > 0;
    c.op = "refine"; c.announce();
    for(size_t k = 0; k < specs.size(); ++k) L.node->add_mesh_part("gen" + std::to_string(k), build_part<Shape_>(specs[k], *L.node->get_mesh()));
    if(with_bnd) { FEAT::Geometry::BoundaryFactory<MeshOf<Shape_>> bf(*L.node->get_mesh()); L.node->add_mesh_part("genbnd", bf.make_unique()); }
    if(nranks)
    {
      std::vector<int> comm; std::unique_ptr<NodeOf<Shape_>> patch = L.node->extract_patch(comm, ear, rank);
      // the base node keeps the patch mesh-part of this rank; refine it alongside once (computed part)
      run_levels<Shape_>(c, std::move(L.node), gi.neigh_valid, 1, mode, geometry, cell_cap);
      run_levels<Shape_>(c, std::move(patch), true, depth, mode, geometry, cell_cap);
    }
    else
      run_levels<Shape_>(c, std::move(L.node), gi.neigh_valid, depth, mode, geometry, cell_cap);
  }

  // ------------------------------------------------------------------------------------------------------------
  // target: sym2 - every pair of reference-cell symmetries on a 2-cell mesh (exhaustive inside one case)
  // ------------------------------------------------------------------------------------------------------------
  template<typename Shape_> inline Raw two_cells()
  {
    constexpr int sd = Shape_::dimension; constexpr bool sx = ShapeInfo<Shape_>::simplex; Raw r; r.simplex = sx; r.sd = sd;
    if(!sx) return grid(false, sd, 2, 1, 1, {}, 0);
    if(sd == 2) { r.vtx = {{0, 0, 0}, {1, 0, 0}, {0, 1, 0}, {1, 1, 0}}; r.cells = {{0, 1, 2}, {1, 3, 2}}; return r; }
    r.vtx = {{0, 0, 0}, {1, 0, 0}, {0, 1, 0}, {0, 0, 1}, {1, 1, 1}}; r.cells = {{0, 1, 2, 3}, {1, 2, 3, 4}};
    for(auto& c : r.cells) if(raw_simplex_det(r, c) < 0) std::swap(c[0], c[1]);
    return r;
  }

  template<typename Shape_> inline void sym2_case(vf::Tape& t, vf::Ctx& c)
  {
    constexpr int sd = Shape_::dimension; constexpr bool sx = ShapeInfo<Shape_>::simplex;
    { static const std::string sc = selfcheck_tables(); if(!sc.empty()) throw std::runtime_error("harness reference tables disagree with FaceIndexMapping: " + sc); }
    Raw base = two_cells<Shape_>();
    const int aff = t.pick({3, 1, 1, 1, 1, 1}); affine(base, aff);
    const bool renum = t.flag(); if(renum) renumber(base, t);
    static const double alphas[3] = {0.0, 0.08, 0.2}; const double jit = jitter(base, t, alphas[t.pick({2, 1, 1})], 2);
    const bool mirror = t.flag(1, 4); const int depth = 1 + t.range(0, 1);
    // tetrahedra avoid deduct_topology_from_top() while the known finding c10-tria-flip is active
    const bool via_factory = t.flag(1, 3) || (sx && sd == 3 && c.excl("c10-tria-flip"));
    const int partkind = t.pick({1, 1, 1, 1, 1});   // 0 none, 1..4 = gen_part_spec kinds 0..3 on the shared facet / random
    // the part is drawn once (from the un-rotated mesh) so that it is the same for all symmetry pairs
    std::vector<uint32_t> ptape; for(int k = 0; k < 24; ++k) ptape.push_back(t.raw());
    c.desc.set("shape", ShapeInfo<Shape_>::name()); c.desc.set("mesh", base.json()); c.desc.set("affine", aff); c.desc.set("jitter", jit); c.desc.set("mirror", mirror); c.desc.set("depth", depth); c.desc.set("partkind", partkind); c.desc.set("build", via_factory ? "factory" : "deduct"); c.label(via_factory ? "build:factory" : "build:deduct");
    c.label(std::string("shape:") + ShapeInfo<Shape_>::name()); c.label(mirror ? "sym:all" : "sym:proper"); c.label("depth:" + std::to_string(depth)); c.label("partkind:" + std::to_string(partkind));
    if(aff) c.label("xform:affine"); if(jit > 0) c.label("xform:jitter"); if(renum) c.label("xform:renumbered");
    c.nontrivial = true; c.op = "sym2"; c.announce();
    const auto& sy = syms(sx, sd); const size_t ns = mirror ? sy.size() : size_t(num_proper_syms(sx, sd));
    for(size_t a = 0; a < ns; ++a) for(size_t b = 0; b < ns; ++b)
    {
      Raw r = base; const size_t sel[2] = {a, b};
      for(int q = 0; q < 2; ++q) { std::vector<Index> nc(r.cells[size_t(q)].size()); for(size_t i = 0; i < nc.size(); ++i) nc[i] = r.cells[size_t(q)][size_t(sy[sel[q]].p[i])]; r.cells[size_t(q)] = nc; }
      auto node = make_node<Shape_>(r, nullptr, via_factory);
      if(partkind)
      {
        vf::Tape pt(ptape, t.size); Flat f = flatten<Shape_>(*node->get_mesh(), false);
        PartSpec ps = gen_part_spec(pt, f, partkind - 1); node->add_mesh_part("gen", build_part<Shape_>(ps, *node->get_mesh()));
      }
      { FEAT::Geometry::BoundaryFactory<MeshOf<Shape_>> bf(*node->get_mesh()); node->add_mesh_part("bnd", bf.make_unique()); }
      try { run_levels<Shape_>(c, std::move(node), true, depth, AdaptMode::none, true, 1000000L); }
      catch(vf::Fail& f) { throw vf::Fail{f.sym + " [symmetries " + std::to_string(a) + "," + std::to_string(b) + "]"}; }
    }
  }

  // ------------------------------------------------------------------------------------------------------------
  // target: perm - mesh permutations (oracle (8))
  // ------------------------------------------------------------------------------------------------------------
  inline Index pmap(const FEAT::Adjacency::Permutation& p, Index i) { return p.empty() ? i : p.get_perm_pos()[i]; }

  template<typename Shape_> inline void perm_case(vf::Tape& t, vf::Ctx& c)
  {
    constexpr int sd = Shape_::dimension;
    { static const std::string sc = selfcheck_tables(); if(!sc.empty()) throw std::runtime_error("harness reference tables disagree with FaceIndexMapping: " + sc); }
    GenOpts go; go.max_file_cells = (sd == 2 ? 40 + 2 * t.size : 10 + t.size / 2); go.lattice_depth = 1;
    GenInfo gi; Loaded<Shape_> L = gen_node<Shape_>(t, c, go, gi);
    c.desc = gi.desc; c.desc.set("shape", ShapeInfo<Shape_>::name());
    fail_if_invalid(c, gi);
    static const PermutationStrategy strat[7] = {PermutationStrategy::lexicographic, PermutationStrategy::random, PermutationStrategy::colored, PermutationStrategy::cuthill_mckee,
      PermutationStrategy::cuthill_mckee_reversed, PermutationStrategy::geometric_cuthill_mckee, PermutationStrategy::geometric_cuthill_mckee_reversed};
    static const char* sname[7] = {"lexicographic", "random", "colored", "cmk", "cmk-rev", "gcmk", "gcmk-rev"};
    const int si = t.range(0, 6);
    Flat O = flatten<Shape_>(*L.node->get_mesh(), false);
    std::vector<PartSpec> specs; vf::J pj = vf::J::arr(); const int nparts = t.pick({1, 2, 1});
    for(int k = 0; k < nparts; ++k) { specs.push_back(gen_part_spec(t, O, t.pick({2, 2, 3, 2}))); pj.add(specs.back().json()); c.label("part:" + specs.back().kind); }
    if(nparts) c.desc.set("parts", pj);
    int nranks = 0; std::vector<int> rank_of; FEAT::Adjacency::Graph ear;
    if(O.n[sd] >= 2 && t.flag(1, 3))
    {
      // patch mesh-parts of a random partition live on the node and must be permuted with it
      nranks = 2 + t.range(0, std::min<int>(int(O.n[sd]), 4) - 2); ear = gen_partition(t, O.n[sd], nranks, rank_of);
      c.label("part:patch"); c.desc.set("patch_ranks", nranks);
    }
    const bool refine_after = t.flag();
    c.desc.set("strategy", sname[si]); c.desc.set("refine_after", refine_after); c.label(std::string("strategy:") + sname[si]); c.label(std::string("shape:") + ShapeInfo<Shape_>::name());
    c.nontrivial = O.n[sd] >= 2; c.op = std::string("permute:") + sname[si]; c.announce();
    for(size_t k = 0; k < specs.size(); ++k) L.node->add_mesh_part("gen" + std::to_string(k), build_part<Shape_>(specs[k], *L.node->get_mesh()));
    for(int r = 0; r < nranks; ++r) L.node->create_patch_meshpart(ear, r);
    { std::string s = validate(O); VF_CHECK(s.empty(), "input mesh: " << s); }
    std::vector<FlatPart> po; for(auto& pr : collect_parts<Shape_>(*L.node)) if(pr.p) po.push_back(flatten_part<Shape_>(*pr.p));

    L.node->create_permutation(strat[si]);

    const MeshOf<Shape_>& pm = *L.node->get_mesh(); Flat P = flatten<Shape_>(pm, true);
    VF_CHECK(pm.is_permuted(), "mesh does not report being permuted");
    for(int d = 0; d <= sd; ++d) VF_CHECK(P.n[d] == O.n[d], "permutation changed the number of " << d << "-entities");
    { std::string s = validate(P); VF_CHECK(s.empty(), "permuted mesh: " << s); }
    const auto& mp = pm.get_mesh_permutation();
    for(int d = 0; d <= sd; ++d)
    {
      const auto& p = mp.get_perm(d); const auto& q = mp.get_inv_perm(d);
      VF_CHECK(p.empty() == q.empty(), "forward/inverse permutation of dimension " << d << " not both present");
      if(p.empty()) continue;
      VF_CHECK(p.size() == O.n[d] && q.size() == O.n[d], "permutation of dimension " << d << " has size " << p.size());
      std::vector<char> seen(size_t(O.n[d]), 0);
      for(Index i = 0; i < O.n[d]; ++i) { Index j = pmap(p, i); VF_CHECK(j < O.n[d] && !seen[j], "permutation of dimension " << d << " is not a bijection"); seen[j] = 1; VF_CHECK(pmap(q, j) == i, "inverse permutation of dimension " << d << " is not the inverse at " << i); }
    }
    // the permuted mesh is the original one renamed: x_new[k] = x_old[P[k]], indices mapped by the inverse permutations
    for(Index v = 0; v < P.n[0]; ++v) for(int r = 0; r < sd; ++r) VF_CHECK(P.vtx[v][size_t(r)] == O.vtx[pmap(mp.get_perm(0), v)][size_t(r)], "vertex " << v << " of the permuted mesh is not old vertex " << pmap(mp.get_perm(0), v));
    for(int D = 1; D <= sd; ++D) for(int d = 0; d < D; ++d) for(Index e = 0; e < P.n[D]; ++e) for(int k = 0; k < P.nc[D][d]; ++k)
      VF_CHECK(P.at(D, d, e, k) == pmap(mp.get_inv_perm(d), O.at(D, d, pmap(mp.get_perm(D), e), k)), "index set <" << D << "," << d << "> entry (" << e << "," << k << ") of the permuted mesh is " << P.at(D, d, e, k) << ", renaming the original gives " << pmap(mp.get_inv_perm(d), O.at(D, d, pmap(mp.get_perm(D), e), k)));
    // parts follow
    {
      size_t pi = 0;
      for(auto& pr : collect_parts<Shape_>(*L.node)) if(pr.p)
      {
        FlatPart np = flatten_part<Shape_>(*pr.p); const FlatPart& op = po[pi++];
        for(int d = 0; d <= sd; ++d)
        {
          VF_CHECK(np.n[d] == op.n[d], pr.name << " changed size under permutation");
          for(Index i = 0; i < np.n[d]; ++i) VF_CHECK(np.trg[d][i] == pmap(mp.get_inv_perm(d), op.trg[d][i]), pr.name << " target " << d << "/" << i << " is " << np.trg[d][i] << ", renamed original is " << pmap(mp.get_inv_perm(d), op.trg[d][i]));
        }
        std::string s = validate_part(np, P); VF_CHECK(s.empty(), pr.name << " after permutation: " << s);
      }
    }
    // colouring / layering
    VF_CHECK(pm.validate_element_coloring(), "validate_element_coloring() fails on the freshly permuted mesh");
    VF_CHECK(pm.validate_element_layering(), "validate_element_layering() fails on the freshly permuted mesh");
    auto own_blocks = [&](const std::vector<Index>& off, bool layering, const char* what)
    {
      if(off.empty()) return;
      VF_CHECK(off.front() == 0 && off.back() == P.n[sd], what << " offsets do not span all elements: " << off.front() << ".." << off.back());
      std::vector<int> blk(size_t(P.n[sd]), -1);
      for(size_t b = 0; b + 1 < off.size(); ++b) { VF_CHECK(off[b] <= off[b + 1], what << " offsets not monotone"); for(Index e = off[b]; e < off[b + 1]; ++e) blk[e] = int(b); }
      std::vector<std::vector<Index>> at_vert((size_t)P.n[0]);
      for(Index e = 0; e < P.n[sd]; ++e) for(int k = 0; k < P.nc[sd][0]; ++k) at_vert[P.at(sd, 0, e, k)].push_back(e);
      for(auto& lst : at_vert) for(size_t a = 0; a < lst.size(); ++a) for(size_t b = a + 1; b < lst.size(); ++b)
      {
        if(layering) VF_CHECK(std::abs(blk[lst[a]] - blk[lst[b]]) <= 1, "elements " << lst[a] << " and " << lst[b] << " share a vertex but lie in layers " << blk[lst[a]] << " and " << blk[lst[b]]);
        else VF_CHECK(blk[lst[a]] != blk[lst[b]], "elements " << lst[a] << " and " << lst[b] << " share a vertex and have the same colour " << blk[lst[a]]);
      }
    };
    {
      // known finding c10-coloring-offsets: create_colored() stores only the NC block starts and drops the documented final
      // entry (= number of elements).  With the switch on, the missing entry is appended so that the colour blocks themselves
      // (including the last one, which validate_element_coloring() never sees) are still checked.
      std::vector<Index> col = mp.get_element_coloring();
      if(!col.empty() && c.excl("c10-coloring-offsets") && col.back() != P.n[sd]) col.push_back(P.n[sd]);
      own_blocks(col, false, "colouring");
    }
    own_blocks(mp.get_element_layering(), true, "layering");
    if(si == 2) VF_CHECK(!mp.get_element_coloring().empty(), "colored strategy produced no colouring");
    if(si >= 3) VF_CHECK(!mp.get_element_layering().empty(), "Cuthill-McKee strategy produced no layering");
    if(refine_after)
    {
      run_levels<Shape_>(c, std::move(L.node), true, 1, AdaptMode::none, true, 1000000L);
    }
  }

  template<typename Shape_> inline void register_shape(std::vector<vf::Target>& tg)
  {
    const std::string s = ShapeInfo<Shape_>::name();
    tg.push_back({s + "_refine", [](vf::Tape& t, vf::Ctx& c) { refine_case<Shape_>(t, c); }, 192, 2, 60000});
    tg.push_back({s + "_sym2", [](vf::Tape& t, vf::Ctx& c) { sym2_case<Shape_>(t, c); }, 96, 0, 120000});
    tg.push_back({s + "_perm", [](vf::Tape& t, vf::Ctx& c) { perm_case<Shape_>(t, c); }, 192, 2, 60000});
  }
} // namespace c10
