// vf.hpp - shared property-testing scaffold for the feat3 verification harnesses.
//
//  * a case is (size, tape): a vector of uint32 "choices" produced by rapidcheck and decoded
//    deterministically by the target ("Tape"); rapidcheck shrinks the tape (delete / towards 0),
//    decoders are written so that 0 means "simplest".
//  * every case is evaluated in a fork()ed child; crashes/aborts/hangs become ordinary failures
//    carrying a symptom string, so they shrink like any mismatch.
//  * the parent keeps counters (evaluations, distinct non-trivial cases, class labels, samples)
//    and writes a JSON result for the driver (/verif/check).
//  * replay: --replay file.json evaluates exactly one stored case without rapidcheck.
#pragma once
#include <rapidcheck.h>
#include <cstdint>
#include <cstdio>
#include <cstdlib>
#include <cstring>
#include <cmath>
#include <string>
#include <vector>
#include <map>
#include <set>
#include <unordered_set>
#include <functional>
#include <sstream>
#include <fstream>
#include <chrono>
#include <limits>
#include <algorithm>
#include <exception>
#include <typeinfo>
#include <unistd.h>
#include <fcntl.h>
#include <poll.h>
#include <signal.h>
#include <sys/wait.h>
#include <sys/resource.h>

namespace vf
{
  // ------------------------------------------------------------------------------------------
  // tiny JSON value
  // ------------------------------------------------------------------------------------------
  struct J
  {
    enum T { Null, Bool, Int, Dbl, Str, Arr, Obj } t = Null;
    bool b = false; long long i = 0; double d = 0.0; std::string s;
    std::vector<J> a; std::vector<std::pair<std::string, J>> o;
    J() {}
    J(bool v) : t(Bool), b(v) {}
    J(int v) : t(Int), i(v) {}
    J(long v) : t(Int), i(v) {}
    J(long long v) : t(Int), i(v) {}
    J(unsigned v) : t(Int), i(v) {}
    J(unsigned long v) : t(Int), i((long long)v) {}
    J(unsigned long long v) : t(Int), i((long long)v) {}
    J(double v) : t(Dbl), d(v) {}
    J(float v) : t(Dbl), d(v) {}
    J(long double v) : t(Dbl), d((double)v) {}
    J(const char* v) : t(Str), s(v) {}
    J(const std::string& v) : t(Str), s(v) {}
    template<typename X> J(const std::vector<X>& v) : t(Arr) { for(const auto& x : v) a.push_back(J(x)); }
    static J arr() { J j; j.t = Arr; return j; }
    static J obj() { J j; j.t = Obj; return j; }
    J& add(const J& v) { t = Arr; a.push_back(v); return *this; }
    J& set(const std::string& k, const J& v)
    {
      t = Obj;
      for(auto& kv : o) if(kv.first == k) { kv.second = v; return *this; }
      o.emplace_back(k, v); return *this;
    }
    const J* get(const std::string& k) const { for(auto& kv : o) if(kv.first == k) return &kv.second; return nullptr; }
    bool has(const std::string& k) const { return get(k) != nullptr; }
    long long geti(const std::string& k, long long def = 0) const { auto* p = get(k); return p ? (p->t == Dbl ? (long long)p->d : p->i) : def; }
    std::string gets(const std::string& k, const std::string& def = "") const { auto* p = get(k); return p ? p->s : def; }

    static void esc(std::string& out, const std::string& s)
    {
      out += '"';
      for(unsigned char c : s)
      {
        switch(c)
        {
        case '"': out += "\\\""; break;
        case '\\': out += "\\\\"; break;
        case '\n': out += "\\n"; break;
        case '\r': out += "\\r"; break;
        case '\t': out += "\\t"; break;
        default:
          if(c < 0x20 || c >= 0x7f) { char buf[8]; snprintf(buf, sizeof buf, "\\u%04x", c); out += buf; }
          else out += (char)c;
        }
      }
      out += '"';
    }
    void dump(std::string& out) const
    {
      switch(t)
      {
      case Null: out += "null"; break;
      case Bool: out += b ? "true" : "false"; break;
      case Int: out += std::to_string(i); break;
      case Dbl:
        if(!std::isfinite(d)) { out += std::isnan(d) ? "\"nan\"" : (d > 0 ? "\"inf\"" : "\"-inf\""); }
        else { char buf[40]; snprintf(buf, sizeof buf, "%.17g", d); out += buf; if(!strpbrk(buf, ".eEn")) out += ".0"; }
        break;
      case Str: esc(out, s); break;
      case Arr: out += '['; for(size_t k = 0; k < a.size(); ++k) { if(k) out += ','; a[k].dump(out); } out += ']'; break;
      case Obj: out += '{'; for(size_t k = 0; k < o.size(); ++k) { if(k) out += ','; esc(out, o[k].first); out += ':'; o[k].second.dump(out); } out += '}'; break;
      }
    }
    std::string str() const { std::string r; dump(r); return r; }

    // parser (enough for our own output)
    struct P
    {
      const char* p; const char* e; bool ok = true;
      void ws() { while(p < e && (*p == ' ' || *p == '\n' || *p == '\r' || *p == '\t')) ++p; }
      J val()
      {
        ws(); J j; if(p >= e) { ok = false; return j; }
        if(*p == '{')
        {
          ++p; j.t = Obj; ws(); if(p < e && *p == '}') { ++p; return j; }
          while(ok)
          {
            ws(); J k = val(); if(k.t != Str) { ok = false; break; } ws(); if(p >= e || *p != ':') { ok = false; break; } ++p;
            J v = val(); j.o.emplace_back(k.s, v); ws();
            if(p < e && *p == ',') { ++p; continue; } if(p < e && *p == '}') { ++p; break; } ok = false;
          }
          return j;
        }
        if(*p == '[')
        {
          ++p; j.t = Arr; ws(); if(p < e && *p == ']') { ++p; return j; }
          while(ok)
          {
            j.a.push_back(val()); ws();
            if(p < e && *p == ',') { ++p; continue; } if(p < e && *p == ']') { ++p; break; } ok = false;
          }
          return j;
        }
        if(*p == '"')
        {
          ++p; j.t = Str;
          while(p < e && *p != '"')
          {
            if(*p == '\\' && p + 1 < e)
            {
              ++p;
              switch(*p)
              {
              case 'n': j.s += '\n'; break; case 'r': j.s += '\r'; break; case 't': j.s += '\t'; break;
              case 'u': { if(p + 4 < e) { unsigned c = (unsigned)strtoul(std::string(p + 1, 4).c_str(), nullptr, 16); j.s += (char)c; p += 4; } break; }
              default: j.s += *p;
              }
              ++p;
            }
            else j.s += *p++;
          }
          if(p < e) ++p; else ok = false; return j;
        }
        if(!strncmp(p, "true", 4)) { p += 4; return J(true); }
        if(!strncmp(p, "false", 5)) { p += 5; return J(false); }
        if(!strncmp(p, "null", 4)) { p += 4; return J(); }
        const char* q = p; bool isd = false;
        while(q < e && (isdigit((unsigned char)*q) || *q == '-' || *q == '+' || *q == '.' || *q == 'e' || *q == 'E')) { if(*q == '.' || *q == 'e' || *q == 'E') isd = true; ++q; }
        if(q == p) { ok = false; return j; }
        std::string num(p, q); p = q;
        if(isd) return J(strtod(num.c_str(), nullptr));
        return J((long long)strtoll(num.c_str(), nullptr, 10));
      }
    };
    static bool parse(const std::string& txt, J& out) { P ps{txt.data(), txt.data() + txt.size()}; out = ps.val(); return ps.ok; }
  };

  inline uint64_t fnv64(const std::string& s) { uint64_t h = 1469598103934665603ull; for(unsigned char c : s) { h ^= c; h *= 1099511628211ull; } return h; }

  // ------------------------------------------------------------------------------------------
  // Tape: deterministic decoder of generated choices
  // ------------------------------------------------------------------------------------------
  struct Tape
  {
    const std::vector<uint32_t>* v; size_t pos = 0; int size = 100; size_t overrun = 0;
    Tape(const std::vector<uint32_t>& t, int sz) : v(&t), size(sz) {}
    uint32_t raw() { if(pos < v->size()) return (*v)[pos++]; ++pos; ++overrun; return 0u; }
    /// integer in [lo,hi] (inclusive); 0 on the tape -> lo
    int range(int lo, int hi) { if(hi <= lo) { raw(); return lo; } return lo + int(raw() % uint32_t(hi - lo + 1)); }
    /// integer in [lo, min(hi, lo + size*scale/100 ...)] - grows with the rapidcheck size
    int sized(int lo, int hi, int at_least = 2)
    {
      long span = long(hi - lo) * std::min(size, 100) / 100; if(span < at_least) span = at_least; if(span > hi - lo) span = hi - lo;
      return range(lo, lo + int(span));
    }
    /// true with probability num/den; 0 on the tape -> false
    bool flag(unsigned num = 1, unsigned den = 2) { return (raw() % den) >= (den - num); }
    /// pick index with weights; 0 on the tape -> index 0
    int pick(std::initializer_list<int> w)
    {
      long tot = 0; for(int x : w) tot += x; long r = long(raw() % uint32_t(tot)); int k = 0;
      for(int x : w) { if(r < x) return k; r -= x; ++k; } return 0;
    }
    /// value classes: 0 = small integer, 1 = dyadic, 2 = scaled real in +-[1e-3,1e3], 3 = wide spread 1e-6..1e6
    double real(int cls)
    {
      uint32_t r = raw();
      switch(cls)
      {
      case 0: { int k = int(r % 19u); return double((k & 1) ? (k + 1) / 2 : -(k / 2)); }          // 0, 1, -1, 2, -2 ... (0 on the tape -> 0)
      case 1: { int k = int(r % 257u); return double((k & 1) ? (k + 1) / 2 : -(k / 2)) / 16.0; }
      case 2: { if(r == 0) return 0.0; double m = double((r >> 8) % 100000u) / 100000.0; double ex = -3.0 + 6.0 * m; double val = std::pow(10.0, ex) * (1.0 + double(r & 0xffu) / 256.0) / 2.0; return (r & 0x80000000u) ? -val : val; }
      default: { if(r == 0) return 0.0; double m = double((r >> 8) % 100000u) / 100000.0; double ex = -6.0 + 12.0 * m; double val = std::pow(10.0, ex) * (1.0 + double(r & 0xffu) / 256.0) / 2.0; return (r & 0x80000000u) ? -val : val; }
      }
    }
    /// non-zero value
    double real_nz(int cls) { double x = real(cls); if(x == 0.0) x = 1.0; return x; }
  };

  // ------------------------------------------------------------------------------------------
  // per-case context (child side)
  // ------------------------------------------------------------------------------------------
  struct Ctx
  {
    std::set<std::string> excluded;      // known-finding classes switched off by the driver
    std::map<std::string, long> excl_hits; // how often the generator steered away (child local)
    J desc = J::obj();                   // case description (human readable, hashed for distinctness)
    std::vector<std::string> labels;     // class labels
    bool nontrivial = false;
    int fd = -1;                         // pipe to parent
    bool desc_sent = false;
    std::string op;                      // operation tag (part of the failure signature)
    bool excl(const std::string& name) { if(excluded.count(name)) { excl_hits[name]++; return true; } return false; }
    void label(const std::string& l) { labels.push_back(l); }
    /// send description before running the operation under test (so a crash still has one)
    void announce()
    {
      if(fd < 0) return; desc_sent = true;   // may be called repeatedly (histories): the parent keeps the last one
      J m = J::obj(); m.set("desc", desc); m.set("nt", nontrivial); m.set("op", op);
      J l = J::arr(); for(auto& x : labels) l.add(x); m.set("labels", l);
      J ex = J::obj(); for(auto& kv : excl_hits) ex.set(kv.first, kv.second); m.set("excl", ex);
      std::string s = "D" + m.str() + "\n"; (void)!write(fd, s.data(), s.size());
    }
  };

  struct Fail { std::string sym; };  // thrown by VF_CHECK
  #define VF_FAIL(msg) do { std::ostringstream vf_os_; vf_os_ << msg; throw ::vf::Fail{vf_os_.str()}; } while(0)
  #define VF_CHECK(cond, msg) do { if(!(cond)) { VF_FAIL("mismatch:" << msg); } } while(0)

  /// discard marker: generator could not build a valid case (counted, never a pass or failure)
  struct Discard { std::string why; };

  typedef std::function<void(Tape&, Ctx&)> TargetFn;
  struct Target { std::string name; TargetFn fn; int tape_base = 256; int tape_per_size = 40; int timeout_ms = 20000; };

  struct Result { std::string verdict; std::string sym; std::string desc_json; bool nontrivial = false; std::vector<std::string> labels; std::string op; std::map<std::string, long> excl; };

  /// run f in a forked child, return "" (no abnormal end) or symptom; used for expected-abort oracles
  /// inside a child.  stderr of the grand-child is captured (first FATAL/ERROR line kept).
  template<typename F> inline std::string run_isolated(F f, std::string* out_stderr = nullptr, int timeout_ms = 10000)
  {
    int fd[2]; if(pipe(fd)) abort();
    pid_t p = fork();
    if(p == 0)
    {
      close(fd[0]); dup2(fd[1], 2);
      try { f(); } catch(std::exception& e) { fprintf(stderr, "EXC %s: %s\n", typeid(e).name(), e.what()); _exit(3); } catch(...) { _exit(4); }
      _exit(0);
    }
    close(fd[1]); std::string err; char buf[4096];
    auto t0 = std::chrono::steady_clock::now(); bool hang = false;
    for(;;)
    {
      struct pollfd pf { fd[0], POLLIN, 0 };
      int left = timeout_ms - (int)std::chrono::duration_cast<std::chrono::milliseconds>(std::chrono::steady_clock::now() - t0).count();
      if(left <= 0) { hang = true; break; }
      int pr = poll(&pf, 1, left); if(pr < 0) { if(errno == EINTR) continue; break; } if(pr == 0) { hang = true; break; }
      ssize_t n = read(fd[0], buf, sizeof buf); if(n <= 0) break; if(err.size() < 65536) err.append(buf, n);
    }
    close(fd[0]); if(hang) kill(p, SIGKILL);
    int st = 0; waitpid(p, &st, 0);
    if(out_stderr) *out_stderr = err;
    if(hang) return "hang";
    if(WIFSIGNALED(st)) return WTERMSIG(st) == SIGABRT ? "abort" : ("crash:sig" + std::to_string(WTERMSIG(st)));
    if(WEXITSTATUS(st) == 3) return "exception";
    if(WEXITSTATUS(st) != 0) return "exit" + std::to_string(WEXITSTATUS(st));
    return "";
  }

  inline std::string first_line_with(const std::string& txt, const char* needle)
  {
    size_t p = txt.find(needle); if(p == std::string::npos) return "";
    size_t b = txt.rfind('\n', p); b = (b == std::string::npos) ? 0 : b + 1; size_t e = txt.find('\n', p);
    return txt.substr(b, e == std::string::npos ? std::string::npos : e - b);
  }

  inline std::string sanitize_sym(std::string s)
  {
    for(auto& c : s) if(c == '\n' || c == '\r') c = ' ';
    if(s.size() > 400) s.resize(400);
    return s;
  }

  /// evaluate one case in a child process
  inline Result run_case(const Target& tg, const std::vector<uint32_t>& tape, int size, const std::set<std::string>& excluded)
  {
    int fd[2], fe[2]; if(pipe(fd) || pipe(fe)) abort();
    fflush(stdout); fflush(stderr);
    pid_t p = fork();
    if(p == 0)
    {
      close(fd[0]); close(fe[0]); dup2(fe[1], 2); close(fe[1]);
      struct rlimit rl { 0, 0 }; setrlimit(RLIMIT_CORE, &rl);
      Ctx ctx; ctx.excluded = excluded; ctx.fd = fd[1];
      Tape tp(tape, size);
      std::string verdict = "ok", sym;
      try { tg.fn(tp, ctx); }
      catch(Fail& f) { verdict = "fail"; sym = f.sym; }
      catch(Discard& d) { verdict = "discard"; sym = d.why; }
      catch(std::exception& e) { verdict = "fail"; sym = std::string("exception:") + typeid(e).name() + ":" + e.what(); }
      catch(...) { verdict = "fail"; sym = "exception:unknown"; }
      if(!ctx.desc_sent || verdict != "fail") ctx.announce();
      J m = J::obj(); m.set("verdict", verdict); m.set("sym", sanitize_sym(sym)); m.set("overrun", (long long)tp.overrun);
      std::string s = "V" + m.str() + "\n"; (void)!write(fd[1], s.data(), s.size());
      _exit(0);
    }
    close(fd[1]); close(fe[1]);
    std::string out, err; char buf[65536];
    auto t0 = std::chrono::steady_clock::now(); bool hang = false; bool open_o = true, open_e = true;
    while(open_o || open_e)
    {
      struct pollfd pf[2] = { { fd[0], POLLIN, 0 }, { fe[0], POLLIN, 0 } };
      int left = tg.timeout_ms - (int)std::chrono::duration_cast<std::chrono::milliseconds>(std::chrono::steady_clock::now() - t0).count();
      if(left <= 0) { hang = true; break; }
      int pr = poll(pf, 2, left); if(pr < 0) { if(errno == EINTR) continue; break; } if(pr == 0) { hang = true; break; }
      if(open_o && (pf[0].revents & (POLLIN | POLLHUP))) { ssize_t n = read(fd[0], buf, sizeof buf); if(n <= 0) open_o = false; else out.append(buf, n); }
      if(open_e && (pf[1].revents & (POLLIN | POLLHUP))) { ssize_t n = read(fe[0], buf, sizeof buf); if(n <= 0) open_e = false; else if(err.size() < 16384) err.append(buf, n); }
      if(!open_o) { // verdict pipe closed: child is done (or dead); drain stderr briefly
        if(open_e) { struct pollfd q { fe[0], POLLIN, 0 }; while(poll(&q, 1, 50) > 0) { ssize_t n = read(fe[0], buf, sizeof buf); if(n <= 0) break; if(err.size() < 16384) err.append(buf, n); } }
        break;
      }
    }
    close(fd[0]); close(fe[0]);
    if(hang) kill(p, SIGKILL);
    int st = 0; waitpid(p, &st, 0);
    Result r;
    // parse D and V lines
    size_t pos = 0;
    while(pos < out.size())
    {
      size_t e = out.find('\n', pos); if(e == std::string::npos) e = out.size();
      std::string line = out.substr(pos, e - pos); pos = e + 1;
      if(line.empty()) continue;
      J j; if(!J::parse(line.substr(1), j)) continue;
      if(line[0] == 'D')
      {
        r.labels.clear(); r.excl.clear();   // a later announcement replaces the earlier one
        if(auto* d = j.get("desc")) r.desc_json = d->str();
        if(auto* n = j.get("nt")) r.nontrivial = n->b;
        r.op = j.gets("op");
        if(auto* l = j.get("labels")) for(auto& x : l->a) r.labels.push_back(x.s);
        if(auto* x = j.get("excl")) for(auto& kv : x->o) r.excl[kv.first] = kv.second.i;
      }
      else if(line[0] == 'V') { r.verdict = j.gets("verdict"); r.sym = j.gets("sym"); }
    }
    if(hang) { r.verdict = "fail"; r.sym = "hang:>" + std::to_string(tg.timeout_ms) + "ms"; return r; }
    if(r.verdict.empty())
    {
      r.verdict = "fail";
      std::string why;
      if(WIFSIGNALED(st))
      {
        int sg = WTERMSIG(st);
        if(sg == SIGABRT)
        {
          std::string l = first_line_with(err, "FATAL ERROR");
          if(!l.empty()) { std::string e2 = first_line_with(err, "Expression:"); std::string f2 = first_line_with(err, "Function"); if(!e2.empty()) l += " | " + e2; if(!f2.empty()) l += " | " + f2.substr(0, 160); }
          if(l.empty()) l = first_line_with(err, "ERROR"); if(l.empty()) l = first_line_with(err, "what()"); if(l.empty()) l = first_line_with(err, "ssert");
          if(l.empty()) l = first_line_with(err, "runtime error"); if(l.empty()) l = first_line_with(err, "free()"); if(l.empty()) l = first_line_with(err, "corrupt");
          why = "abort:" + l;
        }
        else why = "crash:sig" + std::to_string(sg);
      }
      else
      {
        std::string l = first_line_with(err, "ERROR: AddressSanitizer"); if(l.empty()) l = first_line_with(err, "runtime error");
        why = "exit:" + std::to_string(WEXITSTATUS(st)) + ":" + l;
      }
      r.sym = sanitize_sym(why);
    }
    return r;
  }

  /// failure signature key: symptom kind (text before the first ':') + op; shrinking must keep it
  inline std::string sym_key(const Result& r)
  {
    std::string k = r.sym.substr(0, r.sym.find(':'));
    return k + "@" + r.op;
  }

  // ------------------------------------------------------------------------------------------
  // main loop
  // ------------------------------------------------------------------------------------------
  struct Stats
  {
    long evaluations = 0, nontrivial = 0, discards = 0, overruns = 0;
    std::unordered_set<uint64_t> nt_hashes;
    std::map<std::string, long> classes;
    std::map<std::string, long> excluded;
    std::map<std::string, std::string> sample_by_label; // first non-trivial sample per label
    std::vector<std::string> samples;
  };

  inline void write_file(const std::string& path, const std::string& txt) { std::ofstream f(path, std::ios::binary); f << txt; }
  inline bool read_file(const std::string& path, std::string& txt) { std::ifstream f(path, std::ios::binary); if(!f) return false; std::stringstream ss; ss << f.rdbuf(); txt = ss.str(); return true; }

  inline J case_json(const std::string& target, int size, const std::vector<uint32_t>& tape, const Result& r)
  {
    J c = J::obj(); c.set("target", target); c.set("size", size);
    // strip trailing zeros of the tape (reads past the end yield 0 anyway)
    size_t n = tape.size(); while(n > 0 && tape[n - 1] == 0) --n;
    J t = J::arr(); for(size_t k = 0; k < n; ++k) t.add((long long)tape[k]); c.set("tape", t);
    c.set("symptom", r.sym); c.set("op", r.op);
    J d; if(!r.desc_json.empty() && J::parse(r.desc_json, d)) c.set("desc", d);
    return c;
  }

  inline int main_impl(int argc, char** argv, const std::vector<Target>& targets)
  {
    std::string tname, out_path, replay_path, replay_dir = ".", excl_s;
    long cases = 1000; int max_size = 100; unsigned long long seed = 1; bool list = false; double shrink_budget_s = 40.0;
    for(int k = 1; k < argc; ++k)
    {
      std::string a = argv[k]; auto nxt = [&]() -> std::string { return (k + 1 < argc) ? argv[++k] : ""; };
      if(a == "--target") tname = nxt(); else if(a == "--cases") cases = atol(nxt().c_str());
      else if(a == "--max-size") max_size = atoi(nxt().c_str()); else if(a == "--seed") seed = strtoull(nxt().c_str(), nullptr, 10);
      else if(a == "--out") out_path = nxt(); else if(a == "--replay") replay_path = nxt();
      else if(a == "--replay-dir") replay_dir = nxt(); else if(a == "--exclude") excl_s = nxt(); else if(a == "--list") list = true; else if(a == "--tier") (void)nxt(); else if(a == "--shrink-budget") shrink_budget_s = atof(nxt().c_str());
    }
    if(list) { for(auto& t : targets) printf("%s\n", t.name.c_str()); return 0; }
    std::set<std::string> excluded; { std::stringstream ss(excl_s); std::string x; while(std::getline(ss, x, ',')) if(!x.empty()) excluded.insert(x); }

    auto find = [&](const std::string& n) -> const Target* { for(auto& t : targets) if(t.name == n) return &t; return nullptr; };

    auto t_start = std::chrono::steady_clock::now();
    J res = J::obj();

    if(!replay_path.empty())
    {
      std::string txt; J c;
      if(!read_file(replay_path, txt) || !J::parse(txt, c)) { fprintf(stderr, "cannot read replay %s\n", replay_path.c_str()); return 2; }
      std::string tn = c.gets("target"); const Target* tg = find(tn);
      if(!tg) { fprintf(stderr, "replay target %s not in this binary\n", tn.c_str()); return 2; }
      std::vector<uint32_t> tape; if(auto* t = c.get("tape")) for(auto& x : t->a) tape.push_back((uint32_t)x.i);
      int size = (int)c.geti("size", 100);
      Result r = run_case(*tg, tape, size, excluded);
      res.set("mode", "replay"); res.set("target", tn); res.set("verdict", r.verdict); res.set("symptom", r.sym); res.set("op", r.op);
      res.set("sym_key", sym_key(r));
      J d; if(!r.desc_json.empty() && J::parse(r.desc_json, d)) res.set("desc", d);
      std::string s = res.str();
      if(!out_path.empty()) write_file(out_path, s); else printf("%s\n", s.c_str());
      return r.verdict == "fail" ? 1 : 0;
    }

    const Target* tg = find(tname);
    if(!tg) { fprintf(stderr, "unknown target '%s'\n", tname.c_str()); return 2; }
    if(seed == 0) seed = 0x9e3779b97f4a7c15ull;
    {
      std::string params = "seed=" + std::to_string(seed) + " max_success=" + std::to_string(cases) + " max_size=" + std::to_string(max_size) + " noshrink=0 max_discard_ratio=50";
      setenv("RC_PARAMS", params.c_str(), 1);
    }
    Stats st;
    auto t_fail = std::chrono::steady_clock::now();
    bool have_fail = false; std::string fail_key; Result fail_res; std::vector<uint32_t> fail_tape; int fail_size = 0; long shrink_steps = 0;

    auto prop = [&]()
    {
      int size = *rc::gen::withSize([](int s) { return rc::gen::just(s); });
      int len = tg->tape_base + tg->tape_per_size * size;
      std::vector<uint32_t> tape = *rc::gen::resize(rc::kNominalSize, rc::gen::container<std::vector<uint32_t>>((std::size_t)len, rc::gen::arbitrary<uint32_t>()));
      // shrink budget used up: answer every further candidate at once (running the case first made a failing run with slow
      // cases go on for as long as rapidcheck had candidates - the C18h run that was killed after 50 minutes)
      if(have_fail && std::chrono::duration<double>(std::chrono::steady_clock::now() - t_fail).count() > shrink_budget_s) return;
      Result r = run_case(*tg, tape, size, excluded);
      if(!have_fail)
      {
        if(r.verdict == "discard") { st.discards++; RC_DISCARD("generator discard"); }
        st.evaluations++;
        for(auto& kv : r.excl) st.excluded[kv.first] += kv.second;
        for(auto& l : r.labels) st.classes[l]++;
        if(r.nontrivial)
        {
          st.nontrivial++;
          if(st.nt_hashes.insert(fnv64(r.desc_json)).second)
          {
            for(auto& l : r.labels) if(!st.sample_by_label.count(l) && r.desc_json.size() < 6000) st.sample_by_label[l] = r.desc_json;
          }
        }
        if(r.verdict == "fail") { have_fail = true; t_fail = std::chrono::steady_clock::now(); fail_key = sym_key(r); fail_res = r; fail_tape = tape; fail_size = size; RC_FAIL(r.sym); }
      }
      else
      {
        // shrinking phase: a candidate counts only if it fails with the same signature key
        shrink_steps++;
        if(std::chrono::duration<double>(std::chrono::steady_clock::now() - t_fail).count() > shrink_budget_s) return;  // budget used up: keep the best so far
        if(r.verdict == "fail" && sym_key(r) == fail_key) { fail_res = r; fail_tape = tape; fail_size = size; RC_FAIL(r.sym); }
      }
    };
    bool ok = rc::check(tg->name, prop);
    (void)ok;

    res.set("mode", "search"); res.set("target", tg->name); res.set("seed", (long long)seed); res.set("cases_requested", cases); res.set("max_size", max_size);
    res.set("evaluations", st.evaluations); res.set("nontrivial", st.nontrivial); res.set("distinct_nontrivial", (long long)st.nt_hashes.size());
    res.set("discards", st.discards);
    { J c = J::obj(); for(auto& kv : st.classes) c.set(kv.first, kv.second); res.set("classes", c); }
    { J c = J::obj(); for(auto& kv : st.excluded) c.set(kv.first, kv.second); res.set("excluded", c); }
    {
      J s = J::arr(); std::set<std::string> seen; int n = 0;
      for(auto& kv : st.sample_by_label) { if(seen.insert(kv.second).second && n < 12) { J d; if(J::parse(kv.second, d)) { J e = J::obj(); e.set("label", kv.first); e.set("case", d); s.add(e); ++n; } } }
      res.set("samples", s);
    }
    { J h = J::arr(); for(auto x : st.nt_hashes) { char b[20]; snprintf(b, sizeof b, "%016llx", (unsigned long long)x); h.add(std::string(b)); } res.set("nt_hashes", h); }
    int rc_exit = 0;
    if(have_fail)
    {
      // confirm 3x
      int nfail = 0; for(int k = 0; k < 3; ++k) { Result r = run_case(*tg, fail_tape, fail_size, excluded); if(r.verdict == "fail" && sym_key(r) == fail_key) ++nfail; else fprintf(stderr, "[vf] confirm %d: verdict=%s key=%s (expected %s) sym=%s\n", k, r.verdict.c_str(), sym_key(r).c_str(), fail_key.c_str(), r.sym.c_str()); }
      J c = case_json(tg->name, fail_size, fail_tape, fail_res);
      char nm[64]; snprintf(nm, sizeof nm, "%016llx", (unsigned long long)fnv64(c.str()));
      std::string path = replay_dir + "/" + tg->name + "-" + nm + ".json";
      write_file(path, c.str());
      J f = J::obj(); f.set("symptom", fail_res.sym); f.set("op", fail_res.op); f.set("sym_key", fail_key); f.set("replay", path); f.set("confirmed", nfail); f.set("shrink_steps", shrink_steps);
      J d; if(!fail_res.desc_json.empty() && J::parse(fail_res.desc_json, d)) f.set("desc", d);
      res.set("failure", f);
      rc_exit = 1;
    }
    res.set("wall_s", std::chrono::duration<double>(std::chrono::steady_clock::now() - t_start).count());
    std::string s = res.str();
    if(!out_path.empty()) write_file(out_path, s); else printf("%s\n", s.c_str());
    return rc_exit;
  }
} // namespace vf
