// c19_model.hpp - generators and set-based reference model for C19 (graph / permutation / colouring / ordering)
#pragma once
#include "vf.hpp"
#include <kernel/runtime.hpp>
#include <kernel/adjacency/graph.hpp>
#include <kernel/adjacency/dynamic_graph.hpp>
#include <kernel/adjacency/permutation.hpp>
#include <kernel/adjacency/coloring.hpp>
#include <kernel/adjacency/cuthill_mckee.hpp>

namespace c19
{
  using namespace vf;
  using namespace FEAT;
  using namespace FEAT::Adjacency;
  typedef std::vector<std::vector<Index>> Lists;

  inline J lists_json(const Lists& a) { J j = J::arr(); for(auto& r : a) j.add(J(r)); return j; }
  inline long total(const Lists& a) { long n = 0; for(auto& r : a) n += (long)r.size(); return n; }
  inline std::string show(const std::vector<Index>& v) { std::ostringstream o; o << "["; for(size_t k = 0; k < v.size(); ++k) o << (k ? "," : "") << v[k]; o << "]"; return o.str(); }

  // ------------------------------------------------------------------------------------------
  // adjacency relation (the description of a graph): nd domain nodes, ni image nodes, ordered lists
  // ------------------------------------------------------------------------------------------
  struct Adj
  {
    int nd = 0, ni = 0; Lists a; std::string cls;
    long nidx() const { return total(a); }
    bool has_dups() const { for(auto& r : a) { std::set<Index> s(r.begin(), r.end()); if(s.size() != r.size()) return true; } return false; }
    bool has_empty() const { for(auto& r : a) if(r.empty()) return true; return false; }
    J json() const { J j = J::obj(); j.set("nd", nd); j.set("ni", ni); j.set("class", cls); j.set("lists", lists_json(a)); return j; }
  };

  static const char* adj_class_names[] = { "random", "no-indices", "some-empty-lists", "duplicates", "injective-sorted", "single-index", "full", "partition-like" };

  /// relation generator by construction; 0 on the tape -> class random with the smallest sizes
  inline Adj gen_adj(Tape& t, int maxn, int fixed_nd = -1, int fixed_ni = -1, int force_cls = -1)
  {
    Adj g; int cls = force_cls >= 0 ? force_cls : t.pick({30, 8, 12, 12, 8, 5, 5, 8});
    g.cls = adj_class_names[cls];
    g.nd = fixed_nd >= 0 ? fixed_nd : t.sized(0, maxn); g.ni = fixed_ni >= 0 ? fixed_ni : t.sized(0, maxn);
    g.a.assign((size_t)g.nd, {});
    if(g.nd == 0 || g.ni == 0) return g; // no index can exist
    auto img = [&]() { return Index(t.range(0, g.ni - 1)); };
    switch(cls)
    {
    case 0: for(auto& r : g.a) { int k = t.range(0, 6); for(int q = 0; q < k; ++q) r.push_back(img()); } break;
    case 1: break;
    case 2: for(auto& r : g.a) { if(t.flag()) { int k = t.range(1, 4); for(int q = 0; q < k; ++q) r.push_back(img()); } } g.a[(size_t)t.range(0, g.nd - 1)].clear(); break;
    case 3: for(auto& r : g.a) { Index pool[3] = { img(), img(), img() }; int k = t.range(2, 8); for(int q = 0; q < k; ++q) r.push_back(pool[t.range(0, 2)]); } break;
    case 4: for(auto& r : g.a) { int k = t.range(0, std::min(g.ni, 6)); std::set<Index> s; for(int q = 0; q < k; ++q) s.insert(img()); r.assign(s.begin(), s.end()); } break;
    case 5: g.a[(size_t)t.range(0, g.nd - 1)].push_back(img()); break;
    case 6: for(auto& r : g.a) for(int j = 0; j < g.ni; ++j) r.push_back(Index(j)); break;
    case 7: for(int j = 0; j < g.ni; ++j) g.a[(size_t)t.range(0, g.nd - 1)].push_back(Index(j)); break;
    }
    return g;
  }

  // ------------------------------------------------------------------------------------------
  // feat3 Graph <-> model
  // ------------------------------------------------------------------------------------------
  /// build a Graph through one of the public constructors (how: 0 array ctor, 1 vector ctor, 2 allocate+fill)
  inline Graph make_graph(const Adj& g, int how)
  {
    std::vector<Index> ptr(1, 0), idx; for(auto& r : g.a) { for(Index v : r) idx.push_back(v); ptr.push_back(Index(idx.size())); }
    if(how == 1) return Graph(Index(g.ni), ptr, idx);
    if(how == 2)
    {
      Graph r(Index(g.nd), Index(g.ni), Index(idx.size()));
      for(size_t k = 0; k < ptr.size(); ++k) r.get_domain_ptr()[k] = ptr[k];
      for(size_t k = 0; k < idx.size(); ++k) r.get_image_idx()[k] = idx[k];
      return r;
    }
    Index dummy = 0; // the array ctor copies num_indices entries; with 0 indices the pointer is never read (feat3 callers pass data() of empty vectors)
    return Graph(Index(g.nd), Index(g.ni), Index(idx.size()), ptr.data(), idx.empty() ? &dummy : idx.data());
  }

  /// read a Graph from its raw arrays, validating the structure
  inline Lists read_graph(const Graph& g, const char* what)
  {
    Index nd = g.get_num_nodes_domain(); Lists a((size_t)nd);
    if(nd == 0) { VF_CHECK(g.get_num_indices() == 0, what << ": graph without domain nodes has " << g.get_num_indices() << " indices"); return a; }
    const Index* p = g.get_domain_ptr(); const Index* x = g.get_image_idx();
    VF_CHECK(p != nullptr, what << ": domain pointer array missing");
    VF_CHECK(p[0] == 0, what << ": domain_ptr[0]=" << p[0]);
    for(Index i = 0; i < nd; ++i) VF_CHECK(p[i] <= p[i + 1], what << ": domain_ptr not monotone at " << i);
    VF_CHECK(p[nd] == g.get_num_indices(), what << ": domain_ptr[nd]=" << p[nd] << " but num_indices=" << g.get_num_indices());
    for(Index i = 0; i < nd; ++i) for(Index k = p[i]; k < p[i + 1]; ++k)
    {
      VF_CHECK(x[k] < g.get_num_nodes_image(), what << ": image index " << x[k] << " >= num_nodes_image " << g.get_num_nodes_image());
      a[(size_t)i].push_back(x[k]);
    }
    // the Adjactor interface must enumerate the same thing
    for(Index i = 0; i < nd; ++i)
    {
      std::vector<Index> it; for(auto q = g.image_begin(i); q != g.image_end(i); ++q) it.push_back(*q);
      VF_CHECK(it == a[(size_t)i], what << ": image iterators of node " << i << " disagree with the arrays");
      VF_CHECK(g.degree(i) == Index(it.size()), what << ": degree(" << i << ")");
    }
    return a;
  }

  // ------------------------------------------------------------------------------------------
  // set-based model of the render types
  // ------------------------------------------------------------------------------------------
  inline Lists m_compose(const Lists& a, const Lists& b) { Lists e(a.size()); for(size_t i = 0; i < a.size(); ++i) for(Index j : a[i]) for(Index k : b[(size_t)j]) e[i].push_back(k); return e; }
  inline Lists m_transpose(const Lists& a, int ni) { Lists e((size_t)ni); for(size_t i = 0; i < a.size(); ++i) for(Index v : a[i]) e[(size_t)v].push_back(Index(i)); return e; }
  inline Lists m_injectify(const Lists& a) { Lists e(a.size()); for(size_t i = 0; i < a.size(); ++i) { std::set<Index> s(a[i].begin(), a[i].end()); e[i].assign(s.begin(), s.end()); } return e; }
  inline Lists m_sorted(Lists a) { for(auto& r : a) std::sort(r.begin(), r.end()); return a; }
  inline bool is_sorted_lists(const Lists& a) { for(auto& r : a) if(!std::is_sorted(r.begin(), r.end())) return false; return true; }

  static const char* rt_names[] = { "as_is", "as_is_sorted", "injectify", "injectify_sorted", "transpose", "transpose_sorted", "injectify_transpose", "injectify_transpose_sorted" };

  /// compare a rendered relation `got` (dims gd x gi) with the model of render type rt applied to relation rel (nd x ni)
  inline void check_render(int rt, const Lists& rel, int nd, int ni, const Lists& got, Index gd, Index gi, const char* what)
  {
    bool tr = rt >= 4, inj = (rt == 2 || rt == 3 || rt >= 6), srt = (rt & 1) != 0;
    Lists e = rel;
    if(inj) e = m_injectify(e);
    if(tr) e = m_transpose(e, ni);
    Index ed = Index(tr ? ni : nd), ei = Index(tr ? nd : ni);
    VF_CHECK(gd == ed && gi == ei, what << " " << rt_names[rt] << ": dims " << gd << "x" << gi << " expected " << ed << "x" << ei);
    VF_CHECK(got.size() == e.size(), what << ": list count");
    for(size_t i = 0; i < e.size(); ++i)
    {
      const auto& g = got[i];
      if(rt == 0) { VF_CHECK(g == e[i], what << " as_is: node " << i << " got " << show(g) << " expected " << show(e[i])); continue; }
      // every other type: the multiset (set for injectify) per node is fixed, the order only where "_sorted" promises it
      std::vector<Index> gs = g, es = e[i]; std::sort(gs.begin(), gs.end()); std::sort(es.begin(), es.end());
      VF_CHECK(gs == es, what << " " << rt_names[rt] << ": node " << i << " got " << show(g) << " expected (as " << (inj ? "set" : "multiset") << ") " << show(es));
      if(srt) VF_CHECK(std::is_sorted(g.begin(), g.end()), what << " " << rt_names[rt] << ": node " << i << " not ascending: " << show(g));
    }
  }

  // ------------------------------------------------------------------------------------------
  // permutations
  // ------------------------------------------------------------------------------------------
  /// Fisher-Yates swap array from the tape: s[i] in [i, n-1]; all-zero tape -> identity
  inline std::vector<Index> gen_swap(Tape& t, int n) { std::vector<Index> s((size_t)n); for(int i = 0; i < n; ++i) s[(size_t)i] = Index(i + t.range(0, n - 1 - i)); return s; }
  /// the position array described by a swap array: x=id; swap(x[i], x[s[i]]) for i=0..n-2
  inline std::vector<Index> perm_of_swap(const std::vector<Index>& s) { size_t n = s.size(); std::vector<Index> p(n); for(size_t i = 0; i < n; ++i) p[i] = Index(i); for(size_t i = 0; i + 1 < n; ++i) std::swap(p[i], p[(size_t)s[i]]); return p; }
  inline std::vector<Index> inv_of(const std::vector<Index>& p) { std::vector<Index> q(p.size()); for(size_t i = 0; i < p.size(); ++i) q[(size_t)p[i]] = Index(i); return q; }
  inline bool is_bijection(const Index* p, Index n) { std::vector<char> s((size_t)n, 0); for(Index i = 0; i < n; ++i) { if(p[i] >= n || s[(size_t)p[i]]) return false; s[(size_t)p[i]] = 1; } return true; }
  inline bool is_identity(const std::vector<Index>& p) { for(size_t i = 0; i < p.size(); ++i) if(p[i] != i) return false; return true; }
  inline Permutation make_perm(const std::vector<Index>& p) { return Permutation(Index(p.size()), Permutation::ConstrType::perm, p.data()); }

  // ------------------------------------------------------------------------------------------
  // square graphs for colouring / Cuthill-McKee
  // ------------------------------------------------------------------------------------------
  static const char* sq_class_names[] = { "random", "edge-free", "self-loops", "multi-edges", "components", "path-cycle", "complete", "star", "AAt", "asymmetric" };

  /// symmetric (class 9: directed) square relation on n nodes built from an edge list; lists are unsorted
  inline Adj gen_square(Tape& t, int maxn, int minn, bool allow_asym)
  {
    Adj g; int cls = allow_asym ? t.pick({24, 5, 12, 10, 16, 8, 4, 5, 8, 8}) : t.pick({24, 5, 12, 10, 16, 8, 4, 5, 8});
    g.cls = sq_class_names[cls];
    int n = t.sized(minn, maxn); g.nd = g.ni = n; g.a.assign((size_t)n, {});
    if(n == 0) return g;
    std::set<std::pair<int, int>> seen;
    auto edge = [&](int u, int v, bool dedupe) { if(dedupe) { if(u == v || seen.count({std::min(u, v), std::max(u, v)})) return; seen.insert({std::min(u, v), std::max(u, v)}); } g.a[(size_t)u].push_back(Index(v)); if(u != v) g.a[(size_t)v].push_back(Index(u)); };
    auto node = [&]() { return t.range(0, n - 1); };
    std::vector<Index> lab = perm_of_swap(gen_swap(t, n)); // labels: structure is laid out on positions, nodes are lab[pos]
    switch(cls)
    {
    case 0: { int m = t.range(0, 2 * n); for(int q = 0; q < m; ++q) { int u = node(), v = node(); edge(u, v, true); } break; }
    case 1: break;
    case 2: { for(int i = 0; i < n; ++i) g.a[(size_t)i].push_back(Index(i)); int m = t.range(0, 2 * n); for(int q = 0; q < m; ++q) { int u = node(), v = node(); edge(u, v, true); } break; }
    case 3: { int m = t.range(1, 2 * n); for(int q = 0; q < m; ++q) { int u = node(), v = node(); int rep = t.range(1, 2); for(int r = 0; r < rep; ++r) edge(u, v, false); } break; }
    case 4: {
      int nc = t.range(2, 5); std::vector<std::vector<int>> mem((size_t)nc);
      for(int i = 0; i < n; ++i) mem[(size_t)t.range(0, nc - 1)].push_back(i);
      for(auto& m : mem) { if(m.size() < 2) continue; int e = t.range((int)m.size() - 1, 2 * (int)m.size());
        for(size_t k = 1; k < m.size(); ++k) edge(m[k], m[(size_t)t.range(0, (int)k - 1)], true);   // spanning tree: the block is one component
        for(int q = (int)m.size() - 1; q < e; ++q) edge(m[(size_t)t.range(0, (int)m.size() - 1)], m[(size_t)t.range(0, (int)m.size() - 1)], true); }
      break; }
    case 5: { bool cyc = t.flag(); for(int k = 0; k + 1 < n; ++k) edge((int)lab[(size_t)k], (int)lab[(size_t)k + 1], true); if(cyc && n > 2) edge((int)lab[(size_t)n - 1], (int)lab[0], true); break; }
    case 6: { int m = std::min(n, 12); for(int i = 0; i < m; ++i) for(int j = 0; j < i; ++j) edge((int)lab[(size_t)i], (int)lab[(size_t)j], true); break; }
    case 7: { int left = t.range(1, std::max(1, std::min(3, n - 1))); for(int i = 0; i < left; ++i) for(int j = left; j < n; ++j) if(i == 0 || t.flag()) edge((int)lab[(size_t)i], (int)lab[(size_t)j], true); break; }
    case 8: { // elements-at-element style: A (n x m), G = injectify(A o A^T): symmetric, self-loop wherever a list of A is non-empty
      int m = t.range(1, std::max(1, n)); Lists A((size_t)n); for(auto& r : A) { int k = t.range(0, 3); for(int q = 0; q < k; ++q) r.push_back(Index(t.range(0, m - 1))); }
      g.a = m_injectify(m_compose(A, m_transpose(A, m))); break; }
    case 9: { int m = t.range(0, 3 * n); for(int q = 0; q < m; ++q) { int u = node(), v = node(); g.a[(size_t)u].push_back(Index(v)); } break; }
    }
    // optionally isolate a few nodes completely (also removes their self-loops)
    if(cls != 1 && t.flag(1, 4))
    {
      int k = t.range(1, std::max(1, n / 3)); std::vector<char> iso((size_t)n, 0); for(int q = 0; q < k; ++q) iso[(size_t)node()] = 1;
      for(int i = 0; i < n; ++i) { if(iso[(size_t)i]) { g.a[(size_t)i].clear(); continue; } auto& r = g.a[(size_t)i]; r.erase(std::remove_if(r.begin(), r.end(), [&](Index v) { return iso[(size_t)v] != 0; }), r.end()); }
      g.cls += "+isolated";
    }
    return g;
  }

  /// number of connected components of the underlying undirected graph
  inline int components(const Lists& a)
  {
    size_t n = a.size(); std::vector<int> c(n, -1); int nc = 0; Lists u(n);
    for(size_t i = 0; i < n; ++i) for(Index v : a[i]) { u[i].push_back(v); u[(size_t)v].push_back(Index(i)); }
    for(size_t s = 0; s < n; ++s) { if(c[s] >= 0) continue; std::vector<size_t> st(1, s); c[s] = nc; while(!st.empty()) { size_t x = st.back(); st.pop_back(); for(Index v : u[x]) if(c[(size_t)v] < 0) { c[(size_t)v] = nc; st.push_back((size_t)v); } } ++nc; }
    return nc;
  }
  inline bool is_symmetric(const Lists& a) { for(size_t i = 0; i < a.size(); ++i) for(Index v : a[i]) if(std::find(a[(size_t)v].begin(), a[(size_t)v].end(), Index(i)) == a[(size_t)v].end()) return false; return true; }
  inline long distinct_edges(const Lists& a) { std::set<std::pair<Index, Index>> s; for(size_t i = 0; i < a.size(); ++i) for(Index v : a[i]) if(v != i) s.insert({std::min(Index(i), v), std::max(Index(i), v)}); return (long)s.size(); }
} // namespace c19
