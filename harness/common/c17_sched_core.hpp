// c17_sched_core.hpp - C17 targets built on the synthetic instrumented job (no finite elements involved)
//
// case = (shape, mesh class + sizes + renumbering, mesh permutation, cell subset + how it is handed over,
//         strategy, max_worker_threads, 1..3 jobs on the same assembler, each with scatter/combine flags and a schedule)
// oracles: completes (progress watchdog), no abort/exception, structure of the work distribution, exactly-once +
// call protocol, no overlapping scatter of vertex-adjacent cells, serialised combine, integer checksums equal to
// the harness' own sums (lost updates show up exactly), zero ThreadSanitizer reports in the tsan flavour.
#pragma once
#include "c17_common.hpp"

namespace c17
{
  /// synthetic inner job: scatter does a non-atomic read-modify-write on per-vertex accumulators (what a real
  /// scatter does to matrix rows), combine a non-atomic read-modify-write on a job-wide total
  template<bool S_, bool C_> struct SynJob
  {
    const MeshSpec& ms; std::vector<long> vacc; long total = 0; int rmw_us = 0;
    SynJob(const MeshSpec& m, int rmw) : ms(m), vacc(m.nv(), 0), rmw_us(rmw) {}
    static long weight(Index c) { return long(c) + 1; }
    class Task
    {
    public:
      static constexpr bool need_scatter = S_; static constexpr bool need_combine = C_;
    private:
      SynJob& j; Index cell = 0; long local = 0; int naps = 0;
      void widen() { if(j.rmw_us > 0 && naps < 6) { ++naps; std::this_thread::sleep_for(std::chrono::microseconds(j.rmw_us)); } }
    public:
      explicit Task(SynJob& job) : j(job) {}
      void prepare(Index c) { cell = c; }
      void assemble() { local += weight(cell); }
      void scatter()
      {
        long tmp[8]; const int n = j.ms.nvc; const Index* v = &j.ms.cells[cell * Index(n)];
        for(int l = 0; l < n; ++l) tmp[l] = j.vacc[v[l]];
        widen();
        for(int l = 0; l < n; ++l) j.vacc[v[l]] = tmp[l] + weight(cell);
      }
      void finish() {}
      void combine() { long tv = j.total; widen(); j.total = tv + local; }
    };
  };

  struct SchedOpts { int max_cells = 16; bool threaded_bias = false; int wd_ms = 5000; };

  struct JobSpec { bool S = true, C = true, master = false; Sched sched; };   // master: run through assemble_master()

  template<typename DA_, bool S_, bool C_>
  void run_syn_job(Ctx& c, int wd_ms, DA_& da, const MeshSpec& ms, const Subset& sub, const Adj& adj, const JobSpec& js, std::size_t nw, int jidx, J& stats)
  {
    const std::string tag = "job" + std::to_string(jidx);
    // one attempt = one assemble() of a fresh job + all oracles on it; returns "" or the failure text
    auto attempt = [&]() -> std::string
    {
      SynJob<S_, C_> inner(ms, js.sched.mode == 0 ? 0 : std::min(js.sched.base_us, 50));
      Shared sh; sh.sched = js.sched;
      PJob<SynJob<S_, C_>> job(inner, sh);
      { Watchdog wd(c, wd_ms); if(js.master) da.assemble_master(job); else da.assemble(job); }
      try
      {
        LogStats st = check_logs(sh, sub, adj, ms.nc(), S_, C_, js.master ? 0 : nw, tag.c_str());
        // checksums
        std::vector<long> exp(ms.nv(), 0); long tot = 0;
        for(Index cl : sub.cells) { tot += SynJob<S_, C_>::weight(cl); if(S_) for(int l = 0; l < ms.nvc; ++l) exp[ms.cells[cl * Index(ms.nvc) + Index(l)]] += SynJob<S_, C_>::weight(cl); }
        for(Index v = 0; v < ms.nv(); ++v) VF_CHECK(inner.vacc[v] == exp[v], tag << ": vertex accumulator " << v << " is " << inner.vacc[v] << ", serial value " << exp[v] << " (lost update)");
        VF_CHECK(inner.total == (C_ ? tot : 0), tag << ": combined total " << inner.total << ", serial value " << (C_ ? tot : 0));
        J s = J::obj(); s.set("tasks", st.tasks); s.set("overlapping_pairs", st.overlaps); stats.add(s);
#if C17_TSAN
        VF_CHECK(tsan_reports().load() == 0, tag << ": ThreadSanitizer reported " << tsan_first());
#endif
      }
      catch(vf::Fail& f) { return f.sym; }
      return "";
    };
    confirm_in_child(attempt);
  }

  template<typename Shape_> void sched_case(Tape& t, Ctx& c, const SchedOpts& o)
  {
    typedef Geometry::ConformalMesh<Shape_> MeshType; typedef Trafo::Standard::Mapping<MeshType> TrafoType;
    constexpr int dim = Shape_::dimension;
    MeshSpec ms = gen_mesh<Shape_>(t, o.max_cells, o.threaded_bias);
    int mesh_perm = choose_perm(t, ms);
    auto mesh = build_mesh<Shape_>(ms);
    apply_perm(*mesh, ms, mesh_perm);
    ms.desc.set("mesh_perm", perm_name(mesh_perm));
    Subset sub = gen_subset(t, ms);
    Cfg cfg = gen_cfg(t, Index(sub.cells.size()), o.threaded_bias); cfg.mesh_perm = mesh_perm;
    int njobs = 1 + t.pick({ 5, 3, 2 });
    std::vector<JobSpec> jobs;
    for(int k = 0; k < njobs; ++k) { JobSpec js; int f = t.pick({ 5, 2, 2, 1 }); js.S = (f == 0 || f == 1); js.C = (f == 0 || f == 2); js.sched = gen_sched(t, ms.nc()); js.master = t.flag(1, 8); jobs.push_back(js); }

    // strategy the assembler will resolve to (same rule as the documentation of ThreadingStrategy::automatic)
    auto resolve = [&]() { ThreadingStrategy e = cfg.strat; if(e == ThreadingStrategy::automatic) e = cfg.maxw <= 1 ? ThreadingStrategy::single : (mesh_perm == 1 ? ThreadingStrategy::colored : ThreadingStrategy::layered); return e; };
    ThreadingStrategy eff = resolve();
    const bool layered = (eff == ThreadingStrategy::layered || eff == ThreadingStrategy::layered_sorted);
    J steered = J::arr();
    // known finding c17-one-layer: a single selected cell (= one Cuthill-McKee layer) with a layered strategy and
    // max_worker_threads >= 1 makes compile() throw std::out_of_range; when excluded, the request is turned into maxw = 0
    if(layered && cfg.maxw >= 1 && sub.cells.size() == 1) { c.label("kf:one-layer"); if(c.excl("c17-one-layer")) { cfg.maxw = 0; steered.add("one-layer"); c.desc.set("steered", steered); } }

    TrafoType trafo(*mesh);
    std::unique_ptr<DA<TrafoType>> da(new DA<TrafoType>(trafo));
    auto setup = [&]()
    {
      da.reset(new DA<TrafoType>(trafo));
      da->set_threading_strategy(cfg.strat); da->set_max_worker_threads(cfg.maxw);
    };
    c.desc.set("mesh", ms.desc);
    J sj = J::obj(); sj.set("class", sub.cls); sj.set("how", sub.how); sj.set("count", (long long)sub.cells.size());
    if(sub.cells.size() <= 24) sj.set("cells", sub.cells);
    c.desc.set("subset", sj);
    c.desc.set("strategy", strat_name(cfg.strat)); c.desc.set("max_workers", (long long)cfg.maxw);
    J jj = J::arr(); for(auto& js : jobs) { J x = J::obj(); x.set("scatter", js.S); x.set("combine", js.C); if(js.master) x.set("via", "assemble_master"); x.set("sched", js.sched.json()); jj.add(x); }
    c.desc.set("jobs", jj);
    c.op = std::string(strat_name(eff));
    c.nontrivial = !sub.cells.empty() && cfg.maxw >= 1;
    c.label(std::string("shape:") + ShapeTag<Shape_>::n()); c.label("mesh:" + ms.cls); c.label("subset:" + sub.cls); c.label("how:" + sub.how);
    c.label(std::string("strategy:") + strat_name(cfg.strat)); c.label(std::string("resolved:") + strat_name(eff)); c.label(std::string("perm:") + perm_name(mesh_perm));
    c.label("maxw:" + std::string(cfg.maxw == 0 ? "0" : cfg.maxw == 1 ? "1" : cfg.maxw > sub.cells.size() ? ">cells" : cfg.maxw <= 4 ? "2-4" : cfg.maxw <= 8 ? "5-8" : "9-24"));
    c.label("cells:" + std::string(sub.cells.empty() ? "0" : sub.cells.size() == 1 ? "1" : sub.cells.size() <= 16 ? "2-16" : sub.cells.size() <= 256 ? "17-256" : "257+"));
    c.label("jobs:" + std::to_string(njobs));
    c.announce();   // compile() itself is code under test
    verdict_fd() = c.fd;

    setup(); apply_subset(*da, *mesh, sub);
    std::size_t nw = da->get_num_worker_threads();
    // known finding c17-one-worker: a configuration that resolves to exactly one worker thread aborts in
    // Worker::_work_single (asserts id 0, the worker has id 1); when excluded the request is re-made with maxw = 0
    if(nw == 1 && !sub.cells.empty())
    {
      c.label("kf:one-worker");
      if(c.excl("c17-one-worker")) { cfg.maxw = 0; steered.add("one-worker"); setup(); apply_subset(*da, *mesh, sub); nw = da->get_num_worker_threads(); }
    }
    Adj adj(ms);
    check_structure(*da, ms, sub, adj, cfg.maxw);
    VF_CHECK(sub.cells.empty() || da->get_threading_strategy() == resolve(), "structure: strategy resolved to " << strat_name(da->get_threading_strategy()) << ", documented rule gives " << strat_name(eff));
    c.label(workers_class(nw));

    J stats = J::arr(); int jidx = 0;
    for(auto& js : jobs)
    {
      // known finding c17-colored-noscatter: colored strategy, >= 2 workers, task without scatter: the workers run
      // _work_no_scatter and never open their fences while the master waits for them per colour => deadlock
      if(js.master) c.label("via:assemble_master");
      if(da->get_threading_strategy() == ThreadingStrategy::colored && nw >= 2 && !js.S && !js.master)
      {
        c.label("kf:colored-noscatter");
        if(c.excl("c17-colored-noscatter")) { js.S = true; steered.add("colored-noscatter"); }
      }
      c.label(std::string("job:") + (js.S ? "S" : "-") + (js.C ? "C" : "-")); c.label("sched:" + std::to_string(js.sched.mode));
      if(js.S && js.C) run_syn_job<DA<TrafoType>, true, true>(c, o.wd_ms, *da, ms, sub, adj, js, nw, jidx, stats);
      else if(js.S) run_syn_job<DA<TrafoType>, true, false>(c, o.wd_ms, *da, ms, sub, adj, js, nw, jidx, stats);
      else if(js.C) run_syn_job<DA<TrafoType>, false, true>(c, o.wd_ms, *da, ms, sub, adj, js, nw, jidx, stats);
      else run_syn_job<DA<TrafoType>, false, false>(c, o.wd_ms, *da, ms, sub, adj, js, nw, jidx, stats);
      ++jidx;
    }
    (void)steered; (void)stats;
  }

  inline void sched_dispatch(Tape& t, Ctx& c, const SchedOpts& o)
  {
    switch(t.pick({ 5, 3, 2, 1 }))
    {
    case 0: sched_case<Shape::Hypercube<2>>(t, c, o); break;
    case 1: sched_case<Shape::Simplex<2>>(t, c, o); break;
    case 2: sched_case<Shape::Hypercube<1>>(t, c, o); break;
    default: sched_case<Shape::Hypercube<3>>(t, c, o); break;
    }
  }

  inline void add_sched_targets(std::vector<vf::Target>& tg, const std::string& prefix)
  {
    // tiny: 1..16 cells, every worker-count class equally likely (0, 1, 2.., > cells)
    tg.push_back({ prefix + "tiny", [](Tape& t, Ctx& c) { SchedOpts o; o.max_cells = 16; o.threaded_bias = false; sched_dispatch(t, c, o); }, 48, 0, 60000 });
    // sched: up to 1024 cells, mostly >= 2 workers, skewed schedules
    tg.push_back({ prefix + "sched", [](Tape& t, Ctx& c) { SchedOpts o; o.max_cells = 1024; o.threaded_bias = true; sched_dispatch(t, c, o); }, 48, 0, 60000 });
    // big: up to 4096 cells (thorough tier)
    tg.push_back({ prefix + "big", [](Tape& t, Ctx& c) { SchedOpts o; o.max_cells = 4096; o.threaded_bias = true; sched_dispatch(t, c, o); }, 48, 0, 60000 });
  }
} // namespace c17
