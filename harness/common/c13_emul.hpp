// c13_emul.hpp - C13 layer (1): in-process emulation of distributed vectors/operators on the patches of C12.
// For every generated mesh x cell-to-rank assignment: per patch a finite-element space, the real halo mirrors
// (Assembly::MirrorAssembler / LAFEM::VectorMirror), a real Global::Gate compiled from them, and the patch->base
// DOF map obtained by mirroring the patch mesh-part inside the base mesh.  sync_0 / sync_1 are emulated with the
// real gather / scatter_axpy kernels, buffers exchanged in memory in a GENERATED neighbour order.
#pragma once
#include "mesh_gen.hpp"
#include "c10_core.hpp"
#include "c12_core.hpp"
#include <kernel/trafo/standard/mapping.hpp>
#include <kernel/space/lagrange1/element.hpp>
#include <kernel/space/lagrange2/element.hpp>
#include <kernel/space/cro_rav_ran_tur/element.hpp>
#include <kernel/space/discontinuous/element.hpp>
#include <kernel/assembly/mirror_assembler.hpp>
#include <kernel/assembly/symbolic_assembler.hpp>
#include <kernel/assembly/bilinear_operator_assembler.hpp>
#include <kernel/assembly/common_operators.hpp>
#include <kernel/lafem/sparse_matrix_csr.hpp>
#include <kernel/lafem/dense_vector.hpp>
#include <kernel/lafem/dense_vector_blocked.hpp>
#include <kernel/lafem/vector_mirror.hpp>
#include <kernel/lafem/tuple_vector.hpp>
#include <kernel/lafem/tuple_mirror.hpp>
#include <kernel/global/gate.hpp>
#include <control/asm/gate_asm.hpp>
#include <set>

namespace c13
{
  using namespace mg;
  typedef double DT; typedef FEAT::Index IT;
  typedef FEAT::LAFEM::SparseMatrixCSR<DT, IT> M; typedef FEAT::LAFEM::DenseVector<DT, IT> V; typedef FEAT::LAFEM::DenseVectorBlocked<DT, IT, 2> VB;
  typedef FEAT::LAFEM::VectorMirror<DT, IT> Mi;

  template<typename Trafo_> using DiscP0 = FEAT::Space::Discontinuous::Element<Trafo_, FEAT::Space::Discontinuous::Variant::StdPolyP<0>>;

  template<typename Shape_, template<typename> class Elem_> struct Emul
  {
    typedef MeshOf<Shape_> MeshT; typedef FEAT::Trafo::Standard::Mapping<MeshT> TrafoT; typedef Elem_<TrafoT> SpaceT;
    static void run(vf::Tape& t, vf::Ctx& c, const char* ename, bool has_grad = true)
    {
      using namespace FEAT;
      constexpr int sd = Shape_::dimension;
      GenOpts go; go.max_file_cells = (sd == 2 ? 24 + t.size : 6 + t.size / 3); go.lattice_depth = 1; go.tetra_always_factory = true; go.max_n2 = 5; go.max_n3 = 2;
      GenInfo gi; Loaded<Shape_> L = gen_node<Shape_>(t, c, go, gi);
      c.desc = gi.desc; c.desc.set("shape", ShapeInfo<Shape_>::name()); c.desc.set("element", ename);
      c.label(std::string("shape:") + ShapeInfo<Shape_>::name()); c.label(std::string("element:") + ename);
      c10::fail_if_invalid(c, gi);
      const Index ncells = L.node->get_mesh()->get_num_elements();
      int nranks = 1; std::string kname; const int kind = t.pick({4, 2, 3, 3, 1, 1});
      std::vector<int> rank_of = c12::gen_assignment(t, ncells, kind, nranks, kname);
      Adjacency::Graph ear = c12::graph_of(rank_of, nranks, t.flag(1, 3), t);
      int depth = (long(ncells) * ref_count(ShapeInfo<Shape_>::simplex, sd, sd) <= (sd == 2 ? 260 : 130)) ? t.range(0, 1) : 0;
      const bool blocked = t.flag(1, 3);
      const bool tuple = t.flag(1, 3);   // tuple<blocked<2> in the case's space, scalar Lagrange-1> through TupleMirror and a Gate of tuples
      c.desc.set("assignment", kname); c.desc.set("ranks", nranks); c.desc.set("depth", depth); c.desc.set("vector", blocked ? "blocked<2>" : "scalar"); if(rank_of.size() <= 48) c.desc.set("rank_of_cell", vf::J(rank_of));
      c.label("assign:" + kname); c.label(blocked ? "vec:blocked" : "vec:scalar"); if(tuple) c.label("vec:tuple"); c.desc.set("tuple", tuple); c.label(nranks == 1 ? "ranks:1" : (nranks <= 3 ? "ranks:2-3" : "ranks:4+")); c.label("depth:" + std::to_string(depth));
      c.nontrivial = nranks >= 2; c.op = "emulate"; c.announce();
      c12::Parted<Shape_> P; P.base = std::move(L.node); c12::extract_all<Shape_>(P, ear, nranks);
      for(int l = 0; l < depth; ++l) c12::refine_all<Shape_>(P);

      Assembly::Common::LaplaceOperator lap; Assembly::Common::IdentityOperator mass; Cubature::DynamicFactory cub("auto-degree:5");
      TrafoT btrafo(*P.base->get_mesh()); SpaceT bspace(btrafo); const Index N = bspace.get_num_dofs();
      M A; Assembly::SymbolicAssembler::assemble_matrix_std1(A, bspace); A.format();
      if(has_grad) Assembly::BilinearOperatorAssembler::assemble_matrix1(A, lap, bspace, cub); Assembly::BilinearOperatorAssembler::assemble_matrix1(A, mass, bspace, cub, DT(0.5));
      const int nb = blocked ? 2 : 1;
      // base vectors (component j of the blocked vector uses x scaled by (j+1))
      std::vector<double> xv((size_t)N), wv((size_t)N); { Chooser ch(t, (size_t)N, 48); for(Index i = 0; i < N; ++i) { xv[i] = double(int(ch.pick(41)) - 20) / 8.0; wv[i] = double(int(ch.pick(33)) - 16) / 4.0; } }
      V x(N), y(N); for(Index i = 0; i < N; ++i) x.elements()[i] = xv[i]; A.apply(y, x);
      // per patch
      const size_t R = (size_t)nranks;
      std::vector<Mi> pm(R); std::vector<std::map<int, Mi>> hm(R); std::vector<V> yl(R), xl(R), wl(R), freqs(R); std::vector<Index> nd(R);
      std::vector<int> share((size_t)N, 0);
      long double absrow = 0; { const DT* av = A.val(); for(Index k = 0; k < A.used_elements(); ++k) absrow = std::max(absrow, fabsl((long double)av[k])); }
      for(size_t r = 0; r < R; ++r)
      {
        TrafoT tr(*P.patch[r]->get_mesh()); SpaceT sp(tr); nd[r] = sp.get_num_dofs();
        M Ar; Assembly::SymbolicAssembler::assemble_matrix_std1(Ar, sp); Ar.format();
        if(has_grad) Assembly::BilinearOperatorAssembler::assemble_matrix1(Ar, lap, sp, cub); Assembly::BilinearOperatorAssembler::assemble_matrix1(Ar, mass, sp, cub, DT(0.5));
        const PartOf<Shape_>* pp = P.base->get_patch(int(r)); VF_CHECK(pp != nullptr, "base node has no patch part for rank " << r);
        Assembly::MirrorAssembler::assemble_mirror(pm[r], bspace, *pp);
        VF_CHECK(pm[r].num_indices() == nd[r], "patch " << r << ": patch->base DOF map has " << pm[r].num_indices() << " entries, patch space has " << nd[r] << " dofs");
        for(Index k = 0; k < nd[r]; ++k) { VF_CHECK(pm[r].indices()[k] < N, "patch->base DOF map out of range"); share[pm[r].indices()[k]]++; }
        xl[r] = V(nd[r]); wl[r] = V(nd[r]); pm[r].gather(xl[r], x); { V w(N); for(Index i = 0; i < N; ++i) w.elements()[i] = wv[i]; pm[r].gather(wl[r], w); }
        yl[r] = V(nd[r]); if(nd[r] > 0) Ar.apply(yl[r], xl[r]);
        Global::Gate<V, Mi> gate;
        for(int s : P.comm[r])
        {
          const PartOf<Shape_>* hp = P.patch[r]->get_halo(s); VF_CHECK(hp != nullptr, "patch " << r << " lists neighbour " << s << " but has no halo for it");
          Mi mi; Assembly::MirrorAssembler::assemble_mirror(mi, sp, *hp); hm[r][s] = mi.clone(); gate._ranks.push_back(s); gate._mirrors.push_back(std::move(mi));
        }
        gate.compile(V(nd[r])); freqs[r] = gate.get_freqs().clone();
      }
      // every base dof belongs to at least one patch
      for(Index i = 0; i < N; ++i) VF_CHECK(share[i] >= 1, "base dof " << i << " is in no patch");
      // (a) mirrors r->s and s->r address the same base dofs in the same order
      for(size_t r = 0; r < R; ++r) for(int s : P.comm[r])
      {
        VF_CHECK(hm[(size_t)s].count(int(r)) == 1, "neighbour relation not symmetric: " << r << " lists " << s << " but not vice versa");
        const Mi& a = hm[r][s]; const Mi& b = hm[(size_t)s][int(r)];
        VF_CHECK(a.num_indices() == b.num_indices(), "halo mirrors " << r << "<->" << s << " have " << a.num_indices() << " vs " << b.num_indices() << " entries");
        for(Index k = 0; k < a.num_indices(); ++k) VF_CHECK(pm[r].indices()[a.indices()[k]] == pm[(size_t)s].indices()[b.indices()[k]], "halo mirrors " << r << "<->" << s << " entry " << k << " address different base dofs");
      }
      // completeness: a base dof shared by patches r and s is in their mutual mirror
      { std::vector<std::vector<int>> owners((size_t)N); for(size_t r = 0; r < R; ++r) for(Index k = 0; k < nd[r]; ++k) owners[pm[r].indices()[k]].push_back(int(r));
        for(size_t r = 0; r < R; ++r) { std::map<int, std::set<Index>> inm; for(auto& kv : hm[r]) for(Index k = 0; k < kv.second.num_indices(); ++k) inm[kv.first].insert(pm[r].indices()[kv.second.indices()[k]]);
          for(Index k = 0; k < nd[r]; ++k) { Index g = pm[r].indices()[k]; for(int s : owners[g]) if(s != int(r)) VF_CHECK(inm[s].count(g) == 1, "base dof " << g << " is shared by patches " << r << " and " << s << " but missing in the mirror of " << r << " for " << s); } } }
      // (b) gate frequencies = 1 / number of sharing patches
      for(size_t r = 0; r < R; ++r) for(Index k = 0; k < nd[r]; ++k) { long double want = 1.0L / (long double)share[pm[r].indices()[k]]; VF_CHECK(fabsl((long double)freqs[r].elements()[k] - want) <= 4e-16L, "patch " << r << " dof " << k << ": frequency " << freqs[r].elements()[k] << " expected 1/" << share[pm[r].indices()[k]]); }
      // (c) emulated sync_0 of the local products in a generated neighbour order == base operator apply
      auto sync0 = [&](std::vector<V>& vec, bool reverse) {
        std::vector<V> src; for(auto& v : vec) src.push_back(v.clone(FEAT::LAFEM::CloneMode::Deep));
        for(size_t r = 0; r < R; ++r) { std::vector<int> order(P.comm[r].begin(), P.comm[r].end());
          if(reverse) std::reverse(order.begin(), order.end()); else for(size_t i = order.size(); i > 1; --i) std::swap(order[i - 1], order[(size_t)t.range(0, (int)i - 1)]);
          for(int s : order) { V buf(hm[(size_t)s][int(r)].num_indices()); hm[(size_t)s][int(r)].gather(buf, src[(size_t)s]); hm[r][s].scatter_axpy(vec[r], buf); } } };
      std::vector<V> ys; for(auto& v : yl) ys.push_back(v.clone(FEAT::LAFEM::CloneMode::Deep)); sync0(ys, false);
      std::vector<V> ys2; for(auto& v : yl) ys2.push_back(v.clone(FEAT::LAFEM::CloneMode::Deep)); sync0(ys2, true);
      long double xmax = 0; for(double v : xv) xmax = std::max(xmax, (long double)std::fabs(v));
      const long double tol = 64.0L * 40.0L * 1.2e-16L * (absrow * xmax + 1e-300L) * 8.0L;
      for(size_t r = 0; r < R; ++r) for(Index k = 0; k < nd[r]; ++k)
      {
        Index g = pm[r].indices()[k];
        VF_CHECK(fabsl((long double)ys[r].elements()[k] - (long double)y.elements()[g]) <= tol, "sync_0(A_r x_r) differs from (A x) at patch " << r << " dof " << k << " (base " << g << ", shared by " << share[g] << "): " << ys[r].elements()[k] << " vs " << y.elements()[g]);
        VF_CHECK(fabsl((long double)ys[r].elements()[k] - (long double)ys2[r].elements()[k]) <= tol, "sync_0 depends on the order in which neighbour buffers are added at patch " << r << " dof " << k);
      }
      // (d) sync_1 of a type-1 vector (= sync_0 of the frequency-weighted vector) keeps the common values
      { std::vector<V> z; for(size_t r = 0; r < R; ++r) { V v = xl[r].clone(FEAT::LAFEM::CloneMode::Deep); v.component_product(v, freqs[r]); z.push_back(std::move(v)); } sync0(z, false);
        for(size_t r = 0; r < R; ++r) for(Index k = 0; k < nd[r]; ++k) VF_CHECK(fabsl((long double)z[r].elements()[k] - (long double)xl[r].elements()[k]) <= 64e-16L * (xmax + 1e-300L), "sync_1 changes a consistent (type-1) vector at patch " << r << " dof " << k << ": " << z[r].elements()[k] << " vs " << xl[r].elements()[k]); }
      // (e) global dot = sum over patches of the frequency-weighted local dots
      { long double ref = 0, refabs = 0, got = 0; for(Index i = 0; i < N; ++i) { ref += (long double)xv[i] * wv[i]; refabs += fabsl((long double)xv[i] * wv[i]); }
        for(size_t r = 0; r < R; ++r) got += (long double)freqs[r].triple_dot(xl[r], wl[r]);
        VF_CHECK(fabsl(got - ref) <= 64.0L * 1.2e-16L * (long double)(N + 8) * (refabs + 1e-300L), "sum of frequency-weighted local dots " << (double)got << " differs from the global dot " << (double)ref); }
      // (f) blocked vectors go through the same mirrors
      if(nb == 2)
      {
        VB bx(N); for(Index i = 0; i < N; ++i) { bx.template elements<FEAT::LAFEM::Perspective::pod>()[2 * i] = xv[i]; bx.template elements<FEAT::LAFEM::Perspective::pod>()[2 * i + 1] = 2.0 * wv[i]; }
        // buffers of blocked vectors are plain DenseVectors of num_indices*2 scalars
        std::vector<VB> bl; for(size_t r = 0; r < R; ++r) { V buf = pm[r].create_buffer(bx); pm[r].gather(buf, bx); VB v(nd[r]); for(Index q = 0; q < 2 * nd[r]; ++q) v.template elements<FEAT::LAFEM::Perspective::pod>()[q] = buf.elements()[q]; bl.push_back(std::move(v)); }
        std::vector<VB> bs; for(auto& v : bl) bs.push_back(v.clone(FEAT::LAFEM::CloneMode::Deep));
        for(size_t r = 0; r < R; ++r) for(int s : P.comm[r]) { V buf = hm[(size_t)s][int(r)].create_buffer(bl[(size_t)s]); hm[(size_t)s][int(r)].gather(buf, bl[(size_t)s]); hm[r][s].scatter_axpy(bs[r], buf); }
        for(size_t r = 0; r < R; ++r) for(Index k = 0; k < nd[r]; ++k) { Index g = pm[r].indices()[k]; const DT* e = bs[r].template elements<FEAT::LAFEM::Perspective::pod>();
          VF_CHECK(fabsl((long double)e[2 * k] - (long double)share[g] * xv[g]) <= 1e-13L * (xmax + 1) * share[g] && fabsl((long double)e[2 * k + 1] - (long double)share[g] * 2.0 * wv[g]) <= 1e-12L * share[g] * 10, "blocked sync_0: patch " << r << " dof " << k << " does not hold (number of sharing patches) x value"); }
      }
      // (g) tuple vectors (velocity-pressure style): component 0 blocked<2> in the case's space, component 1 scalar Lagrange-1;
      //     TupleMirror gathers both components into ONE buffer (second component behind the first), the Gate of tuples
      //     computes tuple frequencies; same oracles as above per component
      if(tuple)
      {
        auto tuple_check = [&](auto order_tag)
        {
        constexpr bool BF = decltype(order_tag)::value;   // blocked component first (buffer offset 0) or second (behind the scalar part)
        typedef FEAT::Space::Lagrange1::Element<TrafoT> Space1; typedef typename std::conditional<BF, FEAT::LAFEM::TupleVector<VB, V>, FEAT::LAFEM::TupleVector<V, VB>>::type TV; typedef FEAT::LAFEM::TupleMirror<Mi, Mi> TM; constexpr int IB = BF ? 0 : 1, IS = BF ? 1 : 0;   // positions of the blocked / scalar component
        Space1 bsp1(btrafo); const Index N1 = bsp1.get_num_dofs();
        std::vector<double> pv((size_t)N1); for(Index i = 0; i < N1; ++i) pv[i] = double(int((i * 7 + 3) % 23) - 11) / 4.0;
        std::vector<int> share1((size_t)N1, 0); std::vector<Mi> pm1(R); std::vector<std::map<int, TM>> thm(R); std::vector<TV> tl, tfreq; std::vector<Index> nd1(R);
        for(size_t r = 0; r < R; ++r)
        {
          TrafoT tr(*P.patch[r]->get_mesh()); SpaceT sp(tr); Space1 sp1(tr); nd1[r] = sp1.get_num_dofs();
          Assembly::MirrorAssembler::assemble_mirror(pm1[r], bsp1, *P.base->get_patch(int(r)));
          VF_CHECK(pm1[r].num_indices() == nd1[r], "tuple: patch " << r << " Lagrange-1 patch->base map has " << pm1[r].num_indices() << " entries for " << nd1[r] << " dofs");
          for(Index k = 0; k < nd1[r]; ++k) share1[pm1[r].indices()[k]]++;
          TV v; v.template at<IB>() = VB(nd[r]); v.template at<IS>() = V(nd1[r]);
          for(Index k = 0; k < nd[r]; ++k) { Index g = pm[r].indices()[k]; DT* e = v.template at<IB>().template elements<FEAT::LAFEM::Perspective::pod>(); e[2 * k] = xv[g]; e[2 * k + 1] = 2.0 * wv[g]; }
          for(Index k = 0; k < nd1[r]; ++k) v.template at<IS>().elements()[k] = pv[pm1[r].indices()[k]];
          Global::Gate<TV, TM> gate;
          for(int s : P.comm[r])
          {
            const PartOf<Shape_>* hp = P.patch[r]->get_halo(s); Mi m0, m1; Assembly::MirrorAssembler::assemble_mirror(m0, sp, *hp); Assembly::MirrorAssembler::assemble_mirror(m1, sp1, *hp);
            TM tm = BF ? TM(std::move(m0), std::move(m1)) : TM(std::move(m1), std::move(m0)); thm[r].emplace(s, tm.clone()); gate._ranks.push_back(s); gate._mirrors.push_back(std::move(tm));
          }
          TV tmpl; tmpl.template at<IB>() = VB(nd[r]); tmpl.template at<IS>() = V(nd1[r]);
          gate.compile(std::move(tmpl)); tfreq.push_back(gate.get_freqs().clone()); tl.push_back(std::move(v));
          // the same system gate assembled the way the control layer does it: component gates that hold only the NON-EMPTY mirrors (asm_gate skips
          // empty ones, so the components may have different neighbour sets), combined by Control::Asm::build_gate_tuple
          {
            struct FakeComm : FEAT::Dist::Comm { FakeComm(int rk, int n) : FEAT::Dist::Comm() { this->_rank = rk; this->_size = n; } };   // push() only asks the communicator for its size; nothing is sent
            const int fr_ = int(r), fn_ = int(R); FakeComm fcomm{fr_, fn_}; Global::Gate<VB, Mi> gb; Global::Gate<V, Mi> gs; gb.set_comm(&fcomm); gs.set_comm(&fcomm); std::set<int> want;
            for(int s : P.comm[r])
            {
              const PartOf<Shape_>* hp = P.patch[r]->get_halo(s); Mi m0, m1; Assembly::MirrorAssembler::assemble_mirror(m0, sp, *hp); Assembly::MirrorAssembler::assemble_mirror(m1, sp1, *hp);
              if(!m0.empty()) { gb._ranks.push_back(s); gb._mirrors.push_back(std::move(m0)); want.insert(s); } if(!m1.empty()) { gs._ranks.push_back(s); gs._mirrors.push_back(std::move(m1)); want.insert(s); }
            }
            if(gb._ranks.size() != gs._ranks.size()) c.label("tuple:component-neighbours-differ");
            gb.compile(VB(nd[r])); gs.compile(V(nd1[r]));
            Global::Gate<TV, TM> g2; if constexpr(BF) FEAT::Control::Asm::build_gate_tuple(g2, gb, gs); else FEAT::Control::Asm::build_gate_tuple(g2, gs, gb);
            const std::vector<int> rk2 = g2.get_ranks(); std::set<int> have(rk2.begin(), rk2.end());
            VF_CHECK(have == want && have.size() == rk2.size(), "build_gate_tuple: patch " << r << " system gate has " << rk2.size() << " neighbours (" << have.size() << " distinct), the union of the component gates has " << want.size());
            const DT* fa = g2.get_freqs().template at<IB>().template elements<FEAT::LAFEM::Perspective::pod>(); const DT* fb = tfreq.back().template at<IB>().template elements<FEAT::LAFEM::Perspective::pod>();
            for(Index k = 0; k < 2 * nd[r]; ++k) VF_CHECK(fabsl((long double)fa[k] - (long double)fb[k]) <= 4e-16L, "build_gate_tuple: patch " << r << " blocked component entry " << k << " frequency " << fa[k] << ", gate with all mirrors " << fb[k]);
            for(Index k = 0; k < nd1[r]; ++k) VF_CHECK(fabsl((long double)g2.get_freqs().template at<IS>().elements()[k] - (long double)tfreq.back().template at<IS>().elements()[k]) <= 4e-16L, "build_gate_tuple: patch " << r << " scalar component dof " << k << " frequency " << g2.get_freqs().template at<IS>().elements()[k] << ", gate with all mirrors " << tfreq.back().template at<IS>().elements()[k]);
          }
        }
        for(size_t r = 0; r < R; ++r)
        {
          const DT* f0 = tfreq[r].template at<IB>().template elements<FEAT::LAFEM::Perspective::pod>();
          for(Index k = 0; k < nd[r]; ++k) for(int j = 0; j < 2; ++j) VF_CHECK(fabsl((long double)f0[2 * k + (Index)j] - 1.0L / (long double)share[pm[r].indices()[k]]) <= 4e-16L, "tuple gate: patch " << r << " component 0 dof " << k << " frequency " << f0[2 * k + (Index)j] << " expected 1/" << share[pm[r].indices()[k]]);
          for(Index k = 0; k < nd1[r]; ++k) VF_CHECK(fabsl((long double)tfreq[r].template at<IS>().elements()[k] - 1.0L / (long double)share1[pm1[r].indices()[k]]) <= 4e-16L, "tuple gate: patch " << r << " component 1 dof " << k << " frequency " << tfreq[r].template at<IS>().elements()[k] << " expected 1/" << share1[pm1[r].indices()[k]]);
        }
        std::vector<TV> ts; for(auto& v : tl) ts.push_back(v.clone(FEAT::LAFEM::CloneMode::Deep));
        for(size_t r = 0; r < R; ++r) for(int s : P.comm[r])
        {
          const TM& ms = thm[(size_t)s].at(int(r)); const TM& mr = thm[r].at(s);
          V buf = ms.create_buffer(tl[(size_t)s]); VF_CHECK(buf.size() == mr.buffer_size(tl[r]), "tuple mirrors " << r << "<->" << s << " disagree on the buffer size: " << buf.size() << " vs " << mr.buffer_size(tl[r]));
          VF_CHECK(buf.size() == 2 * ms.template at<IB>().num_indices() + ms.template at<IS>().num_indices(), "tuple (" << (BF ? "blocked,scalar" : "scalar,blocked") << ") buffer size " << buf.size() << " is not 2*" << ms.template at<IB>().num_indices() << " + " << ms.template at<IS>().num_indices());
          buf.format(DT(777)); ms.gather(buf, tl[(size_t)s]); for(Index q = 0; q < buf.size(); ++q) VF_CHECK(buf.elements()[q] != DT(777), "tuple gather left buffer entry " << q << " of " << buf.size() << " unwritten");
          mr.scatter_axpy(ts[r], buf);
        }
        long double got = 0, ref = 0, refabs = 0;
        for(Index i = 0; i < N; ++i) { ref += (long double)xv[i] * xv[i] + 4.0L * wv[i] * wv[i]; } for(Index i = 0; i < N1; ++i) ref += (long double)pv[i] * pv[i]; refabs = ref;
        for(size_t r = 0; r < R; ++r)
        {
          const DT* e = ts[r].template at<IB>().template elements<FEAT::LAFEM::Perspective::pod>();
          for(Index k = 0; k < nd[r]; ++k) { Index g = pm[r].indices()[k];
            VF_CHECK(fabsl((long double)e[2 * k] - (long double)share[g] * xv[g]) <= 1e-13L * (xmax + 1) * share[g] && fabsl((long double)e[2 * k + 1] - (long double)share[g] * 2.0 * wv[g]) <= 1e-12L * share[g] * 10, (BF ? "tuple<blocked,scalar>" : "tuple<scalar,blocked>") << " sync_0: patch " << r << " component 0 dof " << k << " does not hold (number of sharing patches) x value: " << e[2 * k] << "," << e[2 * k + 1] << " for " << share[g] << " x (" << xv[g] << "," << 2.0 * wv[g] << ")"); }
          for(Index k = 0; k < nd1[r]; ++k) { Index g = pm1[r].indices()[k]; DT got1 = ts[r].template at<IS>().elements()[k];
            VF_CHECK(fabsl((long double)got1 - (long double)share1[g] * pv[g]) <= 1e-13L * 8 * share1[g], (BF ? "tuple<blocked,scalar>" : "tuple<scalar,blocked>") << " sync_0: patch " << r << " component 1 dof " << k << " = " << got1 << " expected " << share1[g] << " x " << pv[g]); }
          got += (long double)tfreq[r].triple_dot(tl[r], tl[r]);
        }
        VF_CHECK(fabsl(got - ref) <= 64.0L * 1.2e-16L * (long double)(3 * N + N1 + 8) * (refabs + 1e-300L), "tuple: sum of frequency-weighted local dots " << (double)got << " differs from the global dot " << (double)ref);
        };
        tuple_check(std::true_type()); tuple_check(std::false_type());
        // three components <blocked<2> in the case's space, scalar Lagrange-1, scalar Lagrange-1 with other values>: the buffer offsets of the second
        // AND third sub-mirror (recursion of TupleMirror) in gather / scatter_axpy, and the frequencies of a three-component gate
        {
          typedef FEAT::Space::Lagrange1::Element<TrafoT> Space1; typedef FEAT::LAFEM::TupleVector<VB, V, V> TV3; typedef FEAT::LAFEM::TupleMirror<Mi, Mi, Mi> TM3;
          Space1 bsp1(btrafo); const Index N1 = bsp1.get_num_dofs();
          auto pval = [](Index i) { return double(int((i * 7 + 3) % 23) - 11) / 4.0; }; auto qval = [](Index i) { return 64.0 + double(int((i * 5 + 1) % 17)) / 2.0; };
          std::vector<int> share1((size_t)N1, 0); std::vector<Mi> pm1(R); std::vector<std::map<int, TM3>> thm(R); std::vector<TV3> tl, tfreq; std::vector<Index> nd1(R);
          for(size_t r = 0; r < R; ++r)
          {
            TrafoT tr(*P.patch[r]->get_mesh()); SpaceT sp(tr); Space1 sp1(tr); nd1[r] = sp1.get_num_dofs();
            Assembly::MirrorAssembler::assemble_mirror(pm1[r], bsp1, *P.base->get_patch(int(r))); for(Index k = 0; k < nd1[r]; ++k) share1[pm1[r].indices()[k]]++;
            TV3 v; v.template at<0>() = VB(nd[r]); v.template at<1>() = V(nd1[r]); v.template at<2>() = V(nd1[r]);
            for(Index k = 0; k < nd[r]; ++k) { Index g = pm[r].indices()[k]; DT* e = v.template at<0>().template elements<FEAT::LAFEM::Perspective::pod>(); e[2 * k] = xv[g]; e[2 * k + 1] = 2.0 * wv[g]; }
            for(Index k = 0; k < nd1[r]; ++k) { v.template at<1>().elements()[k] = pval(pm1[r].indices()[k]); v.template at<2>().elements()[k] = qval(pm1[r].indices()[k]); }
            Global::Gate<TV3, TM3> gate;
            for(int s : P.comm[r])
            {
              const PartOf<Shape_>* hp = P.patch[r]->get_halo(s); Mi m0, m1, m2; Assembly::MirrorAssembler::assemble_mirror(m0, sp, *hp); Assembly::MirrorAssembler::assemble_mirror(m1, sp1, *hp); m2 = m1.clone();
              TM3 tm(std::move(m0), std::move(m1), std::move(m2)); thm[r].emplace(s, tm.clone()); gate._ranks.push_back(s); gate._mirrors.push_back(std::move(tm));
            }
            TV3 tmpl; tmpl.template at<0>() = VB(nd[r]); tmpl.template at<1>() = V(nd1[r]); tmpl.template at<2>() = V(nd1[r]);
            gate.compile(std::move(tmpl)); tfreq.push_back(gate.get_freqs().clone()); tl.push_back(std::move(v));
          }
          for(size_t r = 0; r < R; ++r)
          {
            const DT* f0 = tfreq[r].template at<0>().template elements<FEAT::LAFEM::Perspective::pod>();
            for(Index k = 0; k < nd[r]; ++k) for(int j = 0; j < 2; ++j) VF_CHECK(fabsl((long double)f0[2 * k + (Index)j] - 1.0L / (long double)share[pm[r].indices()[k]]) <= 4e-16L, "3-tuple gate: patch " << r << " component 0 dof " << k << " frequency " << f0[2 * k + (Index)j] << " expected 1/" << share[pm[r].indices()[k]]);
            for(Index k = 0; k < nd1[r]; ++k) { const long double w = 1.0L / (long double)share1[pm1[r].indices()[k]];
              VF_CHECK(fabsl((long double)tfreq[r].template at<1>().elements()[k] - w) <= 4e-16L && fabsl((long double)tfreq[r].template at<2>().elements()[k] - w) <= 4e-16L, "3-tuple gate: patch " << r << " Lagrange-1 dof " << k << " frequencies " << tfreq[r].template at<1>().elements()[k] << " / " << tfreq[r].template at<2>().elements()[k] << " expected 1/" << share1[pm1[r].indices()[k]]); }
          }
          std::vector<TV3> ts; for(auto& v : tl) ts.push_back(v.clone(FEAT::LAFEM::CloneMode::Deep));
          for(size_t r = 0; r < R; ++r) for(int s : P.comm[r])
          {
            const TM3& ms = thm[(size_t)s].at(int(r)); const TM3& mr = thm[r].at(s);
            V buf = ms.create_buffer(tl[(size_t)s]); VF_CHECK(buf.size() == mr.buffer_size(tl[r]), "3-tuple mirrors " << r << "<->" << s << " disagree on the buffer size: " << buf.size() << " vs " << mr.buffer_size(tl[r]));
            VF_CHECK(buf.size() == 2 * ms.template at<0>().num_indices() + 2 * ms.template at<1>().num_indices(), "3-tuple buffer size " << buf.size() << " is not 2*" << ms.template at<0>().num_indices() << " + 2*" << ms.template at<1>().num_indices());
            buf.format(DT(777)); ms.gather(buf, tl[(size_t)s]); for(Index q = 0; q < buf.size(); ++q) VF_CHECK(buf.elements()[q] != DT(777), "3-tuple gather left buffer entry " << q << " of " << buf.size() << " unwritten");
            mr.scatter_axpy(ts[r], buf);
          }
          for(size_t r = 0; r < R; ++r)
          {
            const DT* e = ts[r].template at<0>().template elements<FEAT::LAFEM::Perspective::pod>();
            for(Index k = 0; k < nd[r]; ++k) { Index g = pm[r].indices()[k];
              VF_CHECK(fabsl((long double)e[2 * k] - (long double)share[g] * xv[g]) <= 1e-13L * (xmax + 1) * share[g] && fabsl((long double)e[2 * k + 1] - (long double)share[g] * 2.0 * wv[g]) <= 1e-12L * share[g] * 10, "tuple<blocked,scalar,scalar> sync_0: patch " << r << " component 0 dof " << k << " does not hold (number of sharing patches) x value: " << e[2 * k] << ", " << e[2 * k + 1]); }
            for(Index k = 0; k < nd1[r]; ++k) { Index g = pm1[r].indices()[k]; const DT g1 = ts[r].template at<1>().elements()[k], g2 = ts[r].template at<2>().elements()[k];
              VF_CHECK(fabsl((long double)g1 - (long double)share1[g] * pval(g)) <= 1e-13L * 8 * share1[g], "tuple<blocked,scalar,scalar> sync_0: patch " << r << " component 1 dof " << k << " = " << g1 << " expected " << share1[g] << " x " << pval(g));
              VF_CHECK(fabsl((long double)g2 - (long double)share1[g] * qval(g)) <= 1e-13L * 128 * share1[g], "tuple<blocked,scalar,scalar> sync_0: patch " << r << " component 2 dof " << k << " = " << g2 << " expected " << share1[g] << " x " << qval(g)); }
          }
        }
      }
    }
  };
}
