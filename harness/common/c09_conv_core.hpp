// c09_conv_core.hpp - C09 (c): level-independent convergence of MultiGrid as a solver on nested Poisson discretisations.
// One template per shape type; instantiated in its own translation unit (compile time).
#pragma once
#include "c09_conv_api.hpp"
#include <kernel/runtime.hpp>
#include <kernel/geometry/boundary_factory.hpp>
#include <kernel/geometry/conformal_mesh.hpp>
#include <kernel/geometry/common_factories.hpp>
#include <kernel/geometry/mesh_part.hpp>
#include <kernel/trafo/standard/mapping.hpp>
#include <kernel/space/lagrange1/element.hpp>
#include <kernel/cubature/dynamic_factory.hpp>
#include <kernel/assembly/symbolic_assembler.hpp>
#include <kernel/assembly/unit_filter_assembler.hpp>
#include <kernel/assembly/bilinear_operator_assembler.hpp>
#include <kernel/assembly/common_operators.hpp>
#include <kernel/assembly/grid_transfer.hpp>
#include <kernel/lafem/dense_vector.hpp>
#include <kernel/lafem/sparse_matrix_csr.hpp>
#include <kernel/lafem/unit_filter.hpp>
#include <kernel/lafem/transfer.hpp>
#include <kernel/solver/pcg.hpp>
#include <kernel/solver/richardson.hpp>
#include <kernel/solver/jacobi_precond.hpp>
#include <kernel/solver/multigrid.hpp>
#include <deque>

namespace c09
{
  using namespace vf;
  using namespace FEAT;

  template<typename ShapeType>
  ConvResult conv_run(const ConvParams& p)
  {
    typedef Geometry::ConformalMesh<ShapeType> MeshType; typedef Geometry::MeshPart<MeshType> MeshPartType;
    typedef Trafo::Standard::Mapping<MeshType> TrafoType; typedef Space::Lagrange1::Element<TrafoType> SpaceType;
    typedef double DT; typedef Index IT;
    typedef LAFEM::DenseVector<DT, IT> VectorType; typedef LAFEM::SparseMatrixCSR<DT, IT> MatrixType;
    typedef LAFEM::UnitFilter<DT, IT> FilterType; typedef LAFEM::Transfer<MatrixType> TransferType;
    struct Level
    {
      MeshType mesh; TrafoType trafo; SpaceType space; MatrixType matrix; FilterType filter; TransferType transfer;
      explicit Level(Geometry::Factory<MeshType>& f) : mesh(f), trafo(mesh), space(trafo) {}
    };
    std::deque<std::shared_ptr<Level>> levels; // finest first
    {
      Geometry::RefinedUnitCubeFactory<MeshType> f((Index)p.crs_ref);
      levels.push_front(std::make_shared<Level>(f));
      if(p.jitter > 0)
      {
        // nestedness is kept: only the coarse mesh is distorted, all finer meshes are regular refinements of it
        auto& vtx = levels.front()->mesh.get_vertex_set(); const int dim = ShapeType::dimension;
        const double h = std::ldexp(1.0, -p.crs_ref), amp = 0.05 * p.jitter * h;
        for(Index i = 0; i < vtx.get_num_vertices(); ++i)
        {
          bool bnd = false; for(int d = 0; d < dim; ++d) if(vtx[i][d] < 1e-12 || vtx[i][d] > 1.0 - 1e-12) bnd = true;
          if(bnd) continue;
          for(int d = 0; d < dim; ++d) vtx[i][d] += amp * (2.0 * hash01(p.seed ^ 0x5bd1e995u, (unsigned long)i * 3u + (unsigned)d) - 1.0);
        }
      }
    }
    for(int l = 1; l < p.nlev; ++l) { Geometry::StandardRefinery<MeshType> f(levels.front()->mesh); levels.push_front(std::make_shared<Level>(f)); }
    Cubature::DynamicFactory cubature("auto-degree:5");
    for(auto& lp : levels)
    {
      Level& lvl = *lp;
      Assembly::SymbolicAssembler::assemble_matrix_std1(lvl.matrix, lvl.space);
      lvl.matrix.format();
      Assembly::Common::LaplaceOperator op;
      Assembly::BilinearOperatorAssembler::assemble_matrix1(lvl.matrix, op, lvl.space, cubature);
      Geometry::BoundaryFactory<MeshType> bf(lvl.mesh); MeshPartType boundary(bf);
      Assembly::UnitFilterAssembler<MeshType> ua; ua.add_mesh_part(boundary); ua.assemble(lvl.filter, lvl.space);
    }
    for(std::size_t i = 0; i + 1 < levels.size(); ++i)
    {
      Level& f = *levels[i]; Level& c = *levels[i + 1];
      MatrixType& prol = f.transfer.get_mat_prol();
      Assembly::SymbolicAssembler::assemble_matrix_2lvl(prol, f.space, c.space);
      prol.format();
      Assembly::GridTransfer::assemble_prolongation_direct(prol, f.space, c.space, cubature);
      f.transfer.get_mat_rest() = prol.transpose();
    }
    auto hier = std::make_shared<Solver::MultiGridHierarchy<MatrixType, FilterType, TransferType>>(levels.size());
    for(std::size_t i = 0; i + 1 < levels.size(); ++i)
    {
      Level& lvl = *levels[i];
      auto jac = Solver::new_jacobi_precond(lvl.matrix, lvl.filter);
      auto sm = Solver::new_richardson(lvl.matrix, lvl.filter, DT(p.omega), jac);
      sm->set_max_iter(Index(p.nu)); sm->set_min_iter(Index(p.nu));
      std::shared_ptr<Solver::SolverBase<VectorType>> peak; if(p.peak) peak = sm;
      hier->push_level(lvl.matrix, lvl.filter, lvl.transfer, sm, sm, peak);
    }
    {
      Level& lvl = *levels.back();
      auto jac = Solver::new_jacobi_precond(lvl.matrix, lvl.filter);
      auto cs = Solver::new_pcg(lvl.matrix, lvl.filter, jac);
      // Domain fact (false alarm fixed): feat3's criterion is def <= tol_abs AND (def <= tol_rel*def0 OR def <= tol_abs_low);
      // tol_abs is an additional requirement, not an alternative - setting it to 1e-300 made PCG iterate to underflow/NaN.
      cs->set_tol_rel(1e-10); cs->set_max_iter(2000);
      hier->push_level(lvl.matrix, lvl.filter, cs);
    }
    hier->init();
    static const Solver::MultiGridCycle ce[] = { Solver::MultiGridCycle::V, Solver::MultiGridCycle::F, Solver::MultiGridCycle::W };
    static const Solver::MultiGridAdaptCGC ae[] = { Solver::MultiGridAdaptCGC::Fixed, Solver::MultiGridAdaptCGC::MinEnergy, Solver::MultiGridAdaptCGC::MinDefect };
    auto mg = Solver::new_multigrid(hier, ce[p.cyc]);
    mg->set_adapt_cgc(ae[p.adapt]);
    mg->init();
    ConvResult res;
    const int L = p.nlev;
    for(int k = 2; k <= L; ++k)
    {
      const int top = L - k; mg->set_levels(top, L - 1);
      Level& lvl = *levels[(std::size_t)top];
      const Index n = lvl.matrix.rows();
      VectorType x(n, DT(0)), b(n), d(n), c(n);
      for(Index i = 0; i < n; ++i) b(i, 2.0 * hash01(p.seed + 977u * (unsigned)k, (unsigned long)i) - 1.0);
      lvl.filter.filter_rhs(b); lvl.filter.filter_sol(x);
      double d0 = 0, dl = 0; int cyc = 0;
      for(; cyc <= 12; ++cyc)
      {
        lvl.matrix.apply(d, x, b, -DT(1)); lvl.filter.filter_def(d);
        dl = d.norm2(); if(cyc == 0) d0 = dl;
        VF_CHECK(std::isfinite(dl), "defect norm not finite after " << cyc << " cycles on " << k << " levels");
        if(cyc == 12 || dl < 1e-8 * d0 || d0 == 0.0) break;
        Solver::Status st = mg->apply(c, d);
        VF_CHECK(Solver::status_success(st), "multigrid apply failed with status " << int(st));
        x.axpy(c);
      }
      res.rho.push_back(cyc > 0 && d0 > 0 ? std::pow(dl / d0, 1.0 / cyc) : 0.0); res.cycles.push_back(cyc); res.dofs.push_back((long)n);
    }
    mg->done(); hier->done();
    return res;
  }

} // namespace c09
