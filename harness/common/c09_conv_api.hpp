// c09_conv_api.hpp - light interface between the convergence target and its per-shape translation units
#pragma once
#include "vf.hpp"
namespace c09
{
  struct ConvParams
  {
    int crs_ref = 1;      // refinement level of the coarse mesh
    int nlev = 2;         // number of levels
    int cyc = 0;          // V/F/W
    int nu = 2;           // smoothing steps (pre = post)
    double omega = 0.7;   // Jacobi damping
    int adapt = 0;        // fixed / min-energy / min-defect
    int peak = 0;         // 0: no peak smoother (pre+post are used), 1: the smoother object is also given as peak smoother
    int jitter = 0;       // 0: none, k: interior coarse vertices moved by up to k*5% of the coarse mesh width
    unsigned seed = 0;    // seeds the right-hand sides and the jitter (pure function of the tape)
  };
  struct ConvResult { std::vector<double> rho; std::vector<int> cycles; std::vector<long> dofs; };

  inline double hash01(unsigned seed, unsigned long i)
  {
    unsigned long long z = (unsigned long long)seed * 0x9e3779b97f4a7c15ull + (i + 1) * 0xbf58476d1ce4e5b9ull;
    z ^= z >> 30; z *= 0xbf58476d1ce4e5b9ull; z ^= z >> 27; z *= 0x94d049bb133111ebull; z ^= z >> 31;
    return double(z >> 11) / double(1ull << 53);
  }

  typedef ConvResult (*ConvFn)(const ConvParams&);
  ConvResult conv_quad(const ConvParams&);
  ConvResult conv_tria(const ConvParams&);
  ConvResult conv_hexa(const ConvParams&);
} // namespace c09
