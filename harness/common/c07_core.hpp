// c07_core.hpp - C07: iterative solvers report their status truthfully and converge to the solution
//
// One case = (system, filter, solver kind + parameters, preconditioner, stop-criterion settings, history of
// init/apply/correct/done calls on ONE solver object).  Oracles:
//   S1  status success  =>  independently recomputed ||b - A x|| (long double, dense copy of the filtered matrix)
//       <= accepted tolerance * (1+1e-6) + K (it+1) n u (||A||_F ||x|| + ||b||)
//   S2  every status the stop logic returned (recorded through the protected virtual _analyse_defect hook of
//       IterativeSolver, behaviour unchanged) equals what the documented criteria give for the defects the
//       solver itself produced; final status / num_iter / def_final consistent with the configured limits
//   S3  on in-scope systems with a sufficient iteration budget: success and ||x - x_ref|| <= ||A^-1||_F * S1-bound
//   S4  rhs bytes unchanged; apply() independent of the prior content of the output vector (NaN garbage vs.
//       zeros, bitwise); correct() honours the start vector (reported initial defect == ||b - A x0||, exact
//       start => success with 0 iterations and untouched iterate)
//   S5  same solver object, same inputs => bitwise equal iterate, equal status and iteration count, also after
//       done_numeric/init_numeric and done/init cycles
#pragma once
#include "lafem_gen.hpp"
#include <kernel/lafem/none_filter.hpp>
#include <kernel/lafem/unit_filter.hpp>
#include <kernel/lafem/vector_mirror.hpp>
#include <kernel/global/gate.hpp>
#include <kernel/global/vector.hpp>
#include <kernel/global/matrix.hpp>
#include <kernel/global/filter.hpp>
#include <kernel/solver/pcg.hpp>
#include <kernel/solver/pcr.hpp>
#include <kernel/solver/pmr.hpp>
#include <kernel/solver/chebyshev.hpp>
#include <kernel/solver/pcgnr.hpp>
#include <kernel/solver/bicgstab.hpp>
#include <kernel/solver/bicgstabl.hpp>
#include <kernel/solver/fgmres.hpp>
#include <kernel/solver/gmres.hpp>
#include <kernel/solver/richardson.hpp>
#include <kernel/solver/rgcr.hpp>
#include <kernel/solver/idrs.hpp>
#include <kernel/solver/pipepcg.hpp>
#include <kernel/solver/gropppcg.hpp>
#include <kernel/solver/rbicgstab.hpp>
#include <kernel/solver/jacobi_precond.hpp>
#include <kernel/solver/ssor_precond.hpp>
#include <kernel/solver/ilu_precond.hpp>
#include <kernel/solver/scale_precond.hpp>
#include <kernel/solver/schwarz_precond.hpp>

namespace c07
{
  using namespace vf;
  using namespace FEAT::Solver;
  typedef long double LD;

  // ==========================================================================================
  // sub-tapes: one choice of the rapidcheck tape is expanded deterministically (splitmix64) into a short
  // virtual tape that is decoded with the same Tape API.  0 expands to all zeros ("simplest").  This keeps the
  // real tape short (about n + 60 choices instead of 25 n): shrinking a failing case otherwise costs > 10^5
  // forked evaluations.  The result is still a pure function of the tape (no other source of randomness).
  // ==========================================================================================
  struct SubTape
  {
    std::vector<uint32_t> v; Tape t;
    SubTape(uint32_t seed, size_t len, int size) : v(len, 0u), t(v, size)
    {
      if(seed != 0u) { uint64_t x = 0x9e3779b97f4a7c15ull * (uint64_t(seed) + 1ull); for(auto& e : v) { x += 0x9e3779b97f4a7c15ull; uint64_t z = x; z = (z ^ (z >> 30)) * 0xbf58476d1ce4e5b9ull; z = (z ^ (z >> 27)) * 0x94d049bb133111ebull; z ^= (z >> 31); e = uint32_t(z >> 16); } }
    }
    SubTape(const SubTape&) = delete;
  };

  // ==========================================================================================
  // dense helpers (long double)
  // ==========================================================================================
  struct DenseLU
  {
    int n = 0; std::vector<LD> lu; std::vector<int> piv; bool singular = false;
    explicit DenseLU(const Dense& d) : n((int)d.r), lu(d.a), piv((size_t)d.r)
    {
      for(int k = 0; k < n; ++k)
      {
        int p = k; for(int i = k + 1; i < n; ++i) if(fabsl(lu[(size_t)(i * n + k)]) > fabsl(lu[(size_t)(p * n + k)])) p = i;
        piv[(size_t)k] = p;
        if(p != k) for(int j = 0; j < n; ++j) std::swap(lu[(size_t)(k * n + j)], lu[(size_t)(p * n + j)]);
        LD d0 = lu[(size_t)(k * n + k)]; if(d0 == 0.0L) { singular = true; return; }
        for(int i = k + 1; i < n; ++i)
        {
          LD f = lu[(size_t)(i * n + k)] / d0; lu[(size_t)(i * n + k)] = f;
          if(f != 0.0L) for(int j = k + 1; j < n; ++j) lu[(size_t)(i * n + j)] -= f * lu[(size_t)(k * n + j)];
        }
      }
    }
    std::vector<LD> solve(std::vector<LD> b) const
    {
      for(int k = 0; k < n; ++k) std::swap(b[(size_t)k], b[(size_t)piv[(size_t)k]]);
      for(int k = 0; k < n; ++k) for(int i = k + 1; i < n; ++i) b[(size_t)i] -= lu[(size_t)(i * n + k)] * b[(size_t)k];
      for(int i = n - 1; i >= 0; --i) { LD s = b[(size_t)i]; for(int j = i + 1; j < n; ++j) s -= lu[(size_t)(i * n + j)] * b[(size_t)j]; b[(size_t)i] = s / lu[(size_t)(i * n + i)]; }
      return b;
    }
    /// Frobenius norm of the inverse (upper bound of ||A^-1||_2)
    LD inv_frob() const
    {
      LD s = 0; std::vector<LD> e((size_t)n);
      for(int c = 0; c < n; ++c) { std::fill(e.begin(), e.end(), 0.0L); e[(size_t)c] = 1.0L; auto x = solve(e); for(LD v : x) s += v * v; }
      return sqrtl(s);
    }
  };
  inline LD norm2(const std::vector<LD>& v) { LD s = 0; for(LD x : v) s += x * x; return sqrtl(s); }
  inline LD frob(const Dense& d) { LD s = 0; for(LD x : d.a) s += x * x; return sqrtl(s); }
  inline std::vector<LD> resid(const Dense& A, const std::vector<LD>& x, const std::vector<LD>& b)
  {
    std::vector<LD> r(b);
    for(long i = 0; i < A.r; ++i) { LD s = 0; for(long j = 0; j < A.c; ++j) s += A(i, j) * x[(size_t)j]; r[(size_t)i] -= s; }
    return r;
  }

  // ==========================================================================================
  // system generator (constructed spectrum / certified bounds)
  // ==========================================================================================
  struct Sys
  {
    int n = 0; std::string cls; bool sym = false; bool integer = false;
    bool generic = false;                 // spectrum has (almost surely) n distinct eigenvalues
    std::vector<std::map<int, double>> rows;
    double lmin = 0, lmax = 0;            // SPD: enclosure of the spectrum
    double mu = 0, sigma = 0;             // nonsymmetric: lambda_min((A+A^T)/2) >= mu > 0, ||A||_2 <= sigma
    double kappa() const { return sym ? lmax / lmin : sigma / mu; }
    long nnz() const { long k = 0; for(auto& r : rows) k += (long)r.size(); return k; }
    Pat pat() const
    {
      Pat p; p.rows = p.cols = n; p.cls = cls; p.col.assign((size_t)n, {}); p.val.assign((size_t)n, {});
      for(int i = 0; i < n; ++i) for(auto& kv : rows[(size_t)i]) { p.col[(size_t)i].push_back(kv.first); p.val[(size_t)i].push_back(kv.second); }
      return p;
    }
    J json() const
    {
      J j = J::obj(); j.set("n", n); j.set("class", cls); j.set("sym", sym); j.set("nnz", nnz());
      if(sym) { j.set("lmin", lmin); j.set("lmax", lmax); } else { j.set("mu", mu); j.set("sigma", sigma); }
      if(nnz() <= 150) { J e = J::arr(); for(int i = 0; i < n; ++i) for(auto& kv : rows[(size_t)i]) { J t = J::arr(); t.add(i); t.add(kv.first); t.add(kv.second); e.add(t); } j.set("entries", e); }
      else { std::string s; for(int i = 0; i < n; ++i) for(auto& kv : rows[(size_t)i]) { s.append((const char*)&kv.first, sizeof(int)); s.append((const char*)&kv.second, sizeof(double)); } char b[20]; snprintf(b, sizeof b, "%016llx", (unsigned long long)fnv64(s)); j.set("entries_fnv", std::string(b)); }
      return j;
    }
  };

  /// non-zero off-diagonal value. 0: integers in +-{1,2,3}; 1: dyadic k/8 in +-(0,2]; 2: reals with |v| in [0.1,10]
  inline double offval(Tape& t, int vcls)
  {
    uint32_t r = t.raw();
    switch(vcls)
    {
    case 0: { static const int tab[6] = { -1, 1, -2, 2, -3, 3 }; return (double)tab[r % 6u]; }
    case 1: { int k = int(r % 32u); double m = double(k / 2 + 1) / 8.0; return (k & 1) ? m : -m; }
    default: { double f = double((r >> 1) % 100000u) / 100000.0; double m = 0.1 * std::pow(100.0, f); return (r & 1u) ? m : -m; }
    }
  }

  /// diagonally dominant matrices (symmetric: SPD by Gershgorin; nonsymmetric: row AND column dominant, so the
  /// symmetric part is positive definite and GMRES(k)/MR-type methods are in scope for every k)
  inline Sys gen_ddom(Tape& t, bool sym, int maxn, double kcap)
  {
    Sys s; s.sym = sym; s.n = t.sized(1, maxn); const int n = s.n;
    int vcls = t.pick({2, 1, 2}); s.integer = (vcls == 0);
    int maxk = t.range(0, 4);
    s.cls = std::string(sym ? "ddom-sym" : "ddom-nonsym") + (vcls == 0 ? "-int" : vcls == 1 ? "-dyadic" : "-real");
    s.rows.assign((size_t)n, {});
    for(int i = 0; i < n; ++i)
    {
      SubTape rt(t.raw(), 20, t.size); Tape& r = rt.t;      // one choice per row (0: no off-diagonal entries)
      int k = r.range(0, maxk);
      for(int q = 0; q < k; ++q)
      {
        int j = r.range(0, n - 1); double v = offval(r, vcls);
        if(j == i) continue;
        s.rows[(size_t)i][j] = v;
        if(sym) s.rows[(size_t)j][i] = v;
        else if(r.flag(1, 2)) s.rows[(size_t)j][i] = offval(r, vcls);   // structurally symmetric partner
      }
    }
    static const double margins[4] = { 1.0, 0.25, 0.05, 4.0 };
    double m = margins[t.pick({3, 2, 2, 1})];
    static const double shifts[3] = { 1.0, 0.125, 8.0 };
    double sh = shifts[t.pick({3, 2, 1})];
    if(s.integer) { m = 0.0; sh = double(1 + t.range(0, 2)); }
    std::vector<double> ra((size_t)n, 0.0), ca((size_t)n, 0.0);
    for(int i = 0; i < n; ++i) for(auto& kv : s.rows[(size_t)i]) { ra[(size_t)i] += std::fabs(kv.second); ca[(size_t)kv.first] += std::fabs(kv.second); }
    double lo = 0, hi = 0, mu = 0, rs = 0, cs = 0;
    for(int guard = 0; guard < 60; ++guard)
    {
      lo = 1e300; hi = 0; mu = 1e300; rs = 0; cs = 0;
      for(int i = 0; i < n; ++i)
      {
        double r = std::max(ra[(size_t)i], ca[(size_t)i]); double d = r * (1.0 + m) + sh;
        lo = std::min(lo, d - r); hi = std::max(hi, d + r); mu = std::min(mu, d - 0.5 * (ra[(size_t)i] + ca[(size_t)i]));
        rs = std::max(rs, d + ra[(size_t)i]); cs = std::max(cs, d + ca[(size_t)i]);
      }
      double kap = sym ? hi / lo : std::sqrt(rs * cs) / mu;
      if(kap <= kcap) break;
      sh *= 2.0;
    }
    for(int i = 0; i < n; ++i) { double r = std::max(ra[(size_t)i], ca[(size_t)i]); s.rows[(size_t)i][i] = r * (1.0 + m) + sh; }
    s.lmin = lo; s.lmax = hi; s.mu = mu; s.sigma = std::sqrt(rs * cs);
    // global scaling (not for the integer class, which must stay exactly representable)
    if(!s.integer)
    {
      static const double sc[4] = { 1.0, 1.0 / 1024.0, 1024.0, 1.0 / 3.0 };
      double f = sc[t.pick({5, 1, 1, 1})];
      if(f != 1.0) { for(auto& r : s.rows) for(auto& kv : r) kv.second *= f; s.lmin *= f * (1 - 1e-12); s.lmax *= f * (1 + 1e-12); s.mu *= f * (1 - 1e-12); s.sigma *= f * (1 + 1e-12); s.cls += "-scaled"; }
    }
    // "generic": real-valued couplings and at most one uncoupled row (uncoupled rows all carry the same diagonal value, i.e. a
    // multiple eigenvalue; false alarm seen: the 5x5 identity labelled generic, BiCGStab(1) 0/0 after its exact first step)
    { int iso = 0; for(int i = 0; i < n; ++i) if(ra[(size_t)i] == 0.0 && ca[(size_t)i] == 0.0) ++iso; s.generic = (vcls == 2 && n >= 3 && iso <= 1); }
    return s;
  }

  /// 1-D / 2-D finite difference Laplacian plus shift (spectrum known in closed form)
  inline Sys gen_lap(Tape& t, int maxn, double kcap)
  {
    Sys s; s.sym = true; s.integer = false;
    bool two = t.flag(1, 3); int p, q = 1;
    if(!two) { p = t.sized(1, maxn); }
    else { int side = std::max(2, (int)std::floor(std::sqrt((double)maxn))); p = t.sized(2, side); q = t.sized(2, side); }
    s.n = p * q; const int n = s.n;
    static const double shifts[4] = { 0.0, 1.0, 0.0625, 0.001 };
    double sh = shifts[t.pick({3, 2, 2, 1})];
    const double pi = 3.14159265358979323846;
    auto ext = [&](double& lo, double& hi)
    {
      lo = sh + 2.0 - 2.0 * std::cos(pi / (p + 1)); hi = sh + 2.0 + 2.0 * std::cos(pi / (p + 1));
      if(two) { lo += 2.0 - 2.0 * std::cos(pi / (q + 1)); hi += 2.0 + 2.0 * std::cos(pi / (q + 1)); }
    };
    double lo, hi; ext(lo, hi);
    for(int guard = 0; guard < 80 && hi / lo > kcap; ++guard) { sh = (sh == 0.0) ? 0.001 : sh * 2.0; ext(lo, hi); }
    s.rows.assign((size_t)n, {});
    for(int a = 0; a < p; ++a) for(int b = 0; b < q; ++b)
    {
      int i = a * q + b; s.rows[(size_t)i][i] = (two ? 4.0 : 2.0) + sh;
      if(a > 0) s.rows[(size_t)i][(a - 1) * q + b] = -1.0; if(a + 1 < p) s.rows[(size_t)i][(a + 1) * q + b] = -1.0;
      if(b > 0) s.rows[(size_t)i][a * q + b - 1] = -1.0; if(b + 1 < q) s.rows[(size_t)i][a * q + b + 1] = -1.0;
    }
    s.integer = (sh == std::floor(sh));
    s.cls = two ? "lap2d" : "lap1d"; s.lmin = lo * (1 - 1e-12); s.lmax = hi * (1 + 1e-12);
    s.generic = !two && n >= 3;
    return s;
  }

  /// block diagonal of Householder similarity transforms of a prescribed spectrum: A_b = H L H, H = I - 2 v v^T / v^T v
  inline Sys gen_householder(Tape& t, int maxn, double kcap)
  {
    Sys s; s.sym = true; s.n = t.sized(1, std::min(maxn, 48)); const int n = s.n;
    bool single = t.flag(1, 2); int bs = single ? n : t.range(2, 8);
    static const double kaps[6] = { 10.0, 2.0, 100.0, 1000.0, 10000.0, 1.0 };
    double kap = std::min(kcap, kaps[t.pick({3, 2, 2, 2, 2, 1})]);
    int sp = (kap == 1.0) ? 4 : t.pick({3, 3, 2, 2});   // uniform / geometric / two clusters / three distinct values / all equal
    static const double bases[3] = { 1.0, 0.01, 50.0 }; double base = bases[t.pick({4, 1, 1})];
    std::vector<LD> lam((size_t)n);
    for(int i = 0; i < n; ++i)
    {
      LD f = n > 1 ? (LD)i / (LD)(n - 1) : 0.0L;
      switch(sp)
      {
      case 0: lam[(size_t)i] = 1.0L + ((LD)kap - 1.0L) * f; break;
      case 1: lam[(size_t)i] = powl((LD)kap, f); break;
      case 2: lam[(size_t)i] = (i % 2 == 0) ? 1.0L + 1e-3L * f : (LD)kap * (1.0L - 1e-3L * f); break;
      case 3: lam[(size_t)i] = (i % 3 == 0) ? 1.0L : (i % 3 == 1) ? sqrtl((LD)kap) : (LD)kap; break;
      default: lam[(size_t)i] = 1.0L;
      }
      lam[(size_t)i] *= (LD)base;
    }
    static const char* spn[] = { "uniform", "geometric", "two-cluster", "three-values", "all-equal" };
    s.cls = std::string(single ? "householder-dense-" : "householder-blocks-") + spn[sp];
    s.rows.assign((size_t)n, {});
    for(int b0 = 0; b0 < n; b0 += bs)
    {
      int m = std::min(bs, n - b0);
      std::vector<LD> v((size_t)m); LD vv = 0;
      SubTape bt(t.raw(), (size_t)m, t.size);
      for(int i = 0; i < m; ++i) { v[(size_t)i] = (LD)bt.t.real(1); vv += v[(size_t)i] * v[(size_t)i]; }
      if(vv == 0.0L) { v[0] = 1.0L; vv = 1.0L; }
      LD vlv = 0; for(int i = 0; i < m; ++i) vlv += v[(size_t)i] * v[(size_t)i] * lam[(size_t)(b0 + i)];
      for(int i = 0; i < m; ++i) for(int j = i; j < m; ++j)
      {
        LD a = (i == j ? lam[(size_t)(b0 + i)] : 0.0L) - 2.0L * (lam[(size_t)(b0 + i)] + lam[(size_t)(b0 + j)]) * v[(size_t)i] * v[(size_t)j] / vv + 4.0L * v[(size_t)i] * v[(size_t)j] * vlv / (vv * vv);
        double ad = (double)a;
        if(ad != 0.0 || i == j) { s.rows[(size_t)(b0 + i)][b0 + j] = ad; s.rows[(size_t)(b0 + j)][b0 + i] = ad; }
      }
    }
    LD lo = lam[0], hi = lam[0]; for(LD x : lam) { lo = std::min(lo, x); hi = std::max(hi, x); }
    s.lmin = (double)lo * (1 - 1e-9); s.lmax = (double)hi * (1 + 1e-9);
    s.generic = (sp <= 1 && n >= 3);
    return s;
  }

  /// nonsymmetric: SPD part from gen_ddom(sym) plus a sparse skew-symmetric part (symmetric part stays S)
  inline Sys gen_spd_plus_skew(Tape& t, int maxn, double kcap)
  {
    Sys s = gen_ddom(t, true, maxn, std::max(2.0, kcap / 4.0)); const int n = s.n;
    s.sym = false; s.cls = "spd+skew(" + s.cls + ")";
    double lmax = s.lmax, lmin = s.lmin;
    // skew entries bounded by 0.9 x the dominance margin of their rows: the matrix stays strictly diagonally dominant
    // (same reason as in gen_convdiff) and sigma/mu <= kcap
    std::vector<double> ks((size_t)n, 0.0), marg((size_t)n, 0.0);
    for(int i = 0; i < n; ++i) { double r = 0; for(auto& kv : s.rows[(size_t)i]) if(kv.first != i) r += std::fabs(kv.second); marg[(size_t)i] = 0.9 * (s.rows[(size_t)i][i] - r); }
    int cnt = n > 1 ? t.range(0, 2 * n) : 0;
    SubTape kt(t.raw(), (size_t)(3 * cnt + 1), t.size); Tape& r = kt.t;
    for(int q = 0; q < cnt; ++q)
    {
      int i = r.range(0, n - 1), j = r.range(0, n - 1); if(i == j) { r.raw(); continue; }
      double v = offval(r, s.integer ? 0 : 1) * (s.integer ? 1.0 : lmin * 0.5);
      if(ks[(size_t)i] + std::fabs(v) > marg[(size_t)i] || ks[(size_t)j] + std::fabs(v) > marg[(size_t)j]) continue;
      double aij = s.rows[(size_t)i].count(j) ? s.rows[(size_t)i][j] : 0.0, aji = s.rows[(size_t)j].count(i) ? s.rows[(size_t)j][i] : 0.0;
      s.rows[(size_t)i][j] = aij + v; s.rows[(size_t)j][i] = aji - v; ks[(size_t)i] += std::fabs(v); ks[(size_t)j] += std::fabs(v);
    }
    double kn = 0; for(double x : ks) kn = std::max(kn, x);
    s.mu = lmin; s.sigma = lmax + kn; s.lmin = s.lmax = 0;
    return s;
  }

  /// 1-D convection-diffusion stencil (-1-c, 2+s, -1+c): symmetric part is the shifted Laplacian
  inline Sys gen_convdiff(Tape& t, int maxn, double kcap)
  {
    Sys s; s.sym = false; s.n = t.sized(1, maxn); const int n = s.n;
    static const double cs[4] = { 0.5, 0.125, 1.0, 2.0 }; double c = cs[t.pick({3, 2, 2, 1})];
    static const double shifts[3] = { 1.0, 0.0625, 0.0 }; double sh = shifts[t.pick({3, 2, 1})];
    // rows stay (weakly) diagonally dominant: |-1-c| + |-1+c| <= 2 + sh.  Without it Jacobi/SSOR sweeps amplify exponentially along
    // the chain and the rounding level of the *preconditioned* problem is far above u*kappa(A) (false alarm seen: RGCR + SSOR(1.9)
    // on (-3, 2, 1): ||M^-1|| ~ 2.85^n, recurrence and true residual apart by 1e10 u d0)
    if(c > 1.0) sh = std::max(sh, 2.0 * c - 2.0);
    const double pi = 3.14159265358979323846;
    double mu = 0, sg = 0;
    for(int guard = 0; guard < 80; ++guard)
    {
      mu = sh + 2.0 - 2.0 * std::cos(pi / (n + 1)); sg = sh + 2.0 + 2.0 * std::cos(pi / (n + 1)) + 2.0 * c;
      if(sg / mu <= kcap) break; sh = (sh == 0.0) ? 0.001 : sh * 2.0;
    }
    s.rows.assign((size_t)n, {});
    for(int i = 0; i < n; ++i) { s.rows[(size_t)i][i] = 2.0 + sh; if(i > 0) s.rows[(size_t)i][i - 1] = -1.0 - c; if(i + 1 < n) s.rows[(size_t)i][i + 1] = -1.0 + c; }
    s.cls = "convdiff1d"; s.mu = mu * (1 - 1e-12); s.sigma = sg * (1 + 1e-12); s.generic = n >= 3; s.integer = false;
    return s;
  }

  inline Sys gen_sys(Tape& t, bool sym, int maxn, double kcap)
  {
    if(sym) { switch(t.pick({4, 2, 3})) { case 0: return gen_ddom(t, true, maxn, kcap); case 1: return gen_lap(t, maxn, kcap); default: return gen_householder(t, maxn, kcap); } }
    switch(t.pick({4, 2, 2})) { case 0: return gen_ddom(t, false, maxn, kcap); case 1: return gen_spd_plus_skew(t, maxn, kcap); default: return gen_convdiff(t, maxn, kcap); }
  }

  // ==========================================================================================
  // solver / preconditioner description
  // ==========================================================================================
  enum Kind { K_PCG = 0, K_PCR, K_PMR, K_CHEB, K_PCGNR, K_BICGSTAB, K_BICGSTABL, K_FGMRES, K_GMRES, K_RICH, K_RGCR, K_IDRS, K_PIPEPCG, K_GROPPPCG, K_RBICGSTAB, K_COUNT };
  static const char* kind_names[] = { "PCG", "PCR", "PMR", "Chebyshev", "PCGNR", "BiCGStab", "BiCGStabL", "FGMRES", "GMRES", "Richardson", "RGCR", "IDRS", "PipePCG", "GroppPCG", "RBiCGStab" };
  enum Prec { P_NONE = 0, P_JACOBI, P_SSOR, P_ILU, P_SCALE };
  static const char* prec_names[] = { "none", "jacobi", "ssor", "ilu0", "scale" };

  inline bool needs_spd(int k) { return k == K_PCG || k == K_PCR || k == K_CHEB || k == K_PIPEPCG || k == K_GROPPPCG; }
  /// block methods that cannot stop inside a block: exact exhaustion of the Krylov space ends in 0/0 (scope fact ii)
  inline bool block_method(int k) { return k == K_FGMRES || k == K_GMRES || k == K_BICGSTABL || k == K_IDRS; }
  /// stationary / one-step methods whose rate is (kappa-1)/(kappa+1): only small condition numbers get a budget
  inline bool slow_method(int k) { return k == K_PMR || k == K_RICH || k == K_CHEB; }

  struct SolverSpec
  {
    int kind = 0; int dim = 1; int variant = 0; double inner = 0.0; double omega = 1.0; double fmin = 0.5, fmax = 0.8;
    int prec = 0; double pomega = 1.0; int prec2 = 0; double pomega2 = 1.0;   // prec2: right preconditioner of PCGNR
    J json() const
    {
      J j = J::obj(); j.set("kind", kind_names[kind]);
      if(kind == K_BICGSTABL || kind == K_FGMRES || kind == K_GMRES || kind == K_IDRS) j.set("dim", dim);
      if(kind == K_BICGSTAB || kind == K_BICGSTABL) j.set("variant", variant ? "right" : "left");
      if(kind == K_FGMRES || kind == K_GMRES) j.set("inner_res_scale", inner);
      if(kind == K_RICH) j.set("omega", omega);
      if(kind == K_CHEB) { j.set("fmin", fmin); j.set("fmax", fmax); }
      j.set("prec", prec_names[prec]); if(prec != P_NONE && prec != P_ILU) j.set("pomega", pomega);
      if(kind == K_PCGNR) { j.set("prec_r", prec_names[prec2]); if(prec2 != P_NONE) j.set("pomega_r", pomega2); }
      return j;
    }
  };

  /// stop-criterion settings; "has_*" = setter is called, otherwise the constructor default stays
  struct Cfg
  {
    double tol_rel = 0; bool has_tol_rel = false;
    double tol_abs = 0; bool has_tol_abs = false;
    double tol_abs_low = 0; bool has_tol_abs_low = false;
    double div_rel = 0; bool has_div_rel = false;
    double div_abs = 0; bool has_div_abs = false;
    double stag_rate = 0; bool has_stag_rate = false;
    int min_iter = 0; int max_iter = 100; int min_stag = 0; bool skip = true; int plot = 0;
    J json() const
    {
      J j = J::obj();
      if(has_tol_rel) j.set("tol_rel", tol_rel); if(has_tol_abs) j.set("tol_abs", tol_abs); if(has_tol_abs_low) j.set("tol_abs_low", tol_abs_low);
      if(has_div_rel) j.set("div_rel", div_rel); if(has_div_abs) j.set("div_abs", div_abs); if(has_stag_rate) j.set("stag_rate", stag_rate);
      j.set("min_iter", min_iter); j.set("max_iter", max_iter); j.set("min_stag_iter", min_stag); j.set("skip_def", skip); j.set("plot", plot);
      return j;
    }
  };

  // ==========================================================================================
  // recorder: derives from the solver class and logs every decision of the (virtual, protected) stop logic.
  // The base implementation is always called and its result returned unchanged.
  // ==========================================================================================
  struct Step { unsigned long it; double dc, dp; bool cs; int st; };
  struct RecBase { std::vector<Step> log; int init_calls = 0; int init_status = 0; double init_def = 0; virtual ~RecBase() {} void reset_log() { log.clear(); init_calls = 0; init_status = 0; init_def = 0; } };
  template<typename Base> class Rec : public Base, public RecBase
  {
  public:
    using Base::Base;
    typedef typename Base::VectorType RVec; typedef typename Base::DataType RDT;
  protected:
    virtual Status _analyse_defect(Index it, RDT dc, RDT dp, bool cs) override
    {
      Status s = Base::_analyse_defect(it, dc, dp, cs);
      if(log.size() < 200000) log.push_back(Step{ (unsigned long)it, (double)dc, (double)dp, cs, (int)s });
      return s;
    }
    virtual Status _set_initial_defect(const RVec& d, const RVec& x) override
    {
      Status s = Base::_set_initial_defect(d, x); ++init_calls; init_status = (int)s; init_def = (double)this->_def_init; return s;
    }
  };

  // ==========================================================================================
  // back-ends: local containers, or single-rank Global:: wrappers (needed by the dot_async solvers)
  // ==========================================================================================
  template<typename DT_, typename LF_> struct LocalBE
  {
    static constexpr bool is_global = false;
    typedef DT_ DT; typedef SparseMatrixCSR<DT, Index> LM; typedef DenseVector<DT, Index> LV; typedef LF_ LF;
    typedef LM MT; typedef LV VT; typedef LF FT;
    LM A; LF F;
    LocalBE(LM&& a, LF&& f) : A(std::move(a)), F(std::move(f)) {}
    const MT& mat() const { return A; } const FT& fil() const { return F; } const LM& lmat() const { return A; } const LF& lfil() const { return F; }
    VT vec() const { return A.create_vector_r(); }
    static LV& loc(VT& v) { return v; } static const LV& loc(const VT& v) { return v; }
  };
  template<typename DT_, typename LF_> struct GlobalBE
  {
    static constexpr bool is_global = true;
    typedef DT_ DT; typedef SparseMatrixCSR<DT, Index> LM; typedef DenseVector<DT, Index> LV; typedef LF_ LF;
    typedef VectorMirror<DT, Index> Mi; typedef Global::Gate<LV, Mi> GateT;
    typedef Global::Matrix<LM, Mi, Mi> MT; typedef Global::Vector<LV, Mi> VT; typedef Global::Filter<LF, Mi> FT;
    Dist::Comm comm; GateT gate; MT A; FT F;
    GlobalBE(LM&& a, LF&& f) : comm(Dist::Comm::world()), gate(comm), A(&gate, &gate, std::move(a)), F(std::move(f)) { gate.compile(LV(A.local().rows())); }
    const MT& mat() const { return A; } const FT& fil() const { return F; } const LM& lmat() const { return A.local(); } const LF& lfil() const { return F.local(); }
    VT vec() const { return A.create_vector_r(); }
    static LV& loc(VT& v) { return v.local(); } static const LV& loc(const VT& v) { return v.local(); }
  };

  template<typename BE> std::shared_ptr<SolverBase<typename BE::VT>> make_prec(const BE& be, int prec, double om)
  {
    typedef typename BE::DT DT;
    switch(prec)
    {
    case P_JACOBI: return new_jacobi_precond(be.mat(), be.fil(), DT(om));
    case P_SCALE: return new_scale_precond(be.fil(), DT(om));
    case P_SSOR:
      if constexpr(BE::is_global) return new_schwarz_precond(new_ssor_precond(PreferredBackend::generic, be.lmat(), be.lfil(), DT(om)), be.fil());
      else return new_ssor_precond(PreferredBackend::generic, be.mat(), be.fil(), DT(om));
    case P_ILU:
      if constexpr(BE::is_global) return new_schwarz_precond(new_ilu_precond(PreferredBackend::generic, be.lmat(), be.lfil(), 0), be.fil());
      else return new_ilu_precond(PreferredBackend::generic, be.mat(), be.fil(), 0);
    default: return nullptr;
    }
  }

  /// solver groups decide what a translation unit instantiates
  enum Group { G_CG = 0, G_KRYLOV = 1, G_MISC = 2, G_GLOBAL = 3 };

  template<int G, typename BE> std::shared_ptr<IterativeSolver<typename BE::VT>> make_solver(const BE& be, const SolverSpec& s)
  {
    typedef typename BE::MT MT; typedef typename BE::FT FT; typedef typename BE::DT DT;
    auto P = make_prec(be, s.prec, s.pomega);
    const MT& A = be.mat(); const FT& F = be.fil();
    if constexpr(G == G_CG)
    {
      switch(s.kind)
      {
      case K_PCG: return std::make_shared<Rec<PCG<MT, FT>>>(A, F, P);
      case K_PCR: return std::make_shared<Rec<PCR<MT, FT>>>(A, F, P);
      case K_PMR: return std::make_shared<Rec<PMR<MT, FT>>>(A, F, P);
      case K_CHEB: return std::make_shared<Rec<Chebyshev<MT, FT>>>(A, F, DT(s.fmin), DT(s.fmax));
      case K_PCGNR: return std::make_shared<Rec<PCGNR<MT, FT>>>(A, F, P, make_prec(be, s.prec2, s.pomega2));
      }
    }
    if constexpr(G == G_KRYLOV)
    {
      switch(s.kind)
      {
      case K_BICGSTAB: return std::make_shared<Rec<BiCGStab<MT, FT>>>(A, F, P, s.variant ? BiCGStabPreconVariant::right : BiCGStabPreconVariant::left);
      case K_BICGSTABL: return std::make_shared<Rec<BiCGStabL<MT, FT>>>(A, F, s.dim, P, s.variant ? BiCGStabLPreconVariant::right : BiCGStabLPreconVariant::left);
      case K_FGMRES: return std::make_shared<Rec<FGMRES<MT, FT>>>(A, F, Index(s.dim), DT(s.inner), P);
      case K_GMRES: return std::make_shared<Rec<GMRES<MT, FT>>>(A, F, Index(s.dim), DT(s.inner), P);
      }
    }
    if constexpr(G == G_MISC)
    {
      switch(s.kind)
      {
      case K_RICH: return std::make_shared<Rec<Richardson<MT, FT>>>(A, F, DT(s.omega), P);
      case K_RGCR: return std::make_shared<Rec<RGCR<MT, FT>>>(A, F, P);
      case K_IDRS: {
        auto p = std::make_shared<Rec<IDRS<MT, FT>>>(A, F, Index(s.dim), P);
        // the default shadow space is seeded from time(nullptr): the documented deterministic mode is used
        // (harness rule: results are a pure function of the case)
        p->reset_shadow_space(false);
        return p; }
      }
    }
    if constexpr(G == G_GLOBAL)
    {
      switch(s.kind)
      {
      case K_PIPEPCG: return std::make_shared<Rec<PipePCG<MT, FT>>>(A, F, P);
      case K_GROPPPCG: return std::make_shared<Rec<GroppPCG<MT, FT>>>(A, F, P);
      case K_RBICGSTAB: return std::make_shared<Rec<RBiCGStab<MT, FT>>>(A, F, P);
      case K_PCG: return std::make_shared<Rec<PCG<MT, FT>>>(A, F, P);
      }
    }
    VF_FAIL("harness:solver kind " << s.kind << " not in group " << G);
  }

  template<typename VT> void apply_cfg(IterativeSolver<VT>& s, const Cfg& c)
  {
    typedef typename VT::DataType DT;
    if(c.has_tol_rel) s.set_tol_rel(DT(c.tol_rel)); if(c.has_tol_abs) s.set_tol_abs(DT(c.tol_abs)); if(c.has_tol_abs_low) s.set_tol_abs_low(DT(c.tol_abs_low));
    if(c.has_div_rel) s.set_div_rel(DT(c.div_rel)); if(c.has_div_abs) s.set_div_abs(DT(c.div_abs)); if(c.has_stag_rate) s.set_stag_rate(DT(c.stag_rate));
    s.set_min_iter(Index(c.min_iter)); s.set_max_iter(Index(c.max_iter)); s.set_min_stag_iter(Index(c.min_stag));
    if(!c.skip) s.skip_defect_calc(false);
    static const PlotMode pm[4] = { PlotMode::none, PlotMode::iter, PlotMode::summary, PlotMode::all };
    if(c.plot) s.set_plot_mode(pm[c.plot]);
  }

  // ==========================================================================================
  // one solve and its checks
  // ==========================================================================================
  struct SolveSpec
  {
    bool correct = false;            // correct(x0,b) or apply(x,d)
    std::string rhs_cls, x0_cls;
    std::vector<double> b, x0;       // already filtered (the way every caller prepares the system)
    bool exact_start = false;        // b == A x0 exactly (integer data): initial defect is exactly zero
    bool rhs_generic = false;
  };
  template<typename DT> struct SolveResult { int status = 0; unsigned long iters = 0; DT def0 = 0, defF = 0; std::string xbytes; std::vector<LD> x; std::vector<Step> log; int init_status = 0; };

  inline const char* status_name(int s) { static const char* n[] = { "undefined", "progress", "success", "aborted", "diverged", "max_iter", "stagnated" }; return (s >= 0 && s < 7) ? n[s] : "invalid"; }

  template<typename DT> struct Limits
  {
    DT tol_rel, tol_abs, tol_abs_low, div_rel, div_abs, stag_rate; unsigned long min_iter, max_iter, min_stag;
    template<typename S> explicit Limits(const S& s) : tol_rel(s.get_tol_rel()), tol_abs(s.get_tol_abs()), tol_abs_low(s.get_tol_abs_low()), div_rel(s.get_div_rel()), div_abs(s.get_div_abs()),
      stag_rate(s.get_stag_rate()), min_iter(s.get_min_iter()), max_iter(s.get_max_iter()), min_stag(s.get_min_stag_iter()) {}
    // the documented criteria (iterative.hpp, class documentation of _tol_rel)
    bool conv(DT d, DT d0) const { return (d <= tol_abs) && ((d <= tol_rel * d0) || (d <= tol_abs_low)); }
    bool divg(DT d, DT d0) const { return (d > div_abs) || (d > div_rel * d0); }
  };

  /// S2: the stop logic, replayed on the defects the solver produced
  template<typename DT> void check_stop_logic(const Limits<DT>& L, const SolveResult<DT>& R, int kind, bool skip_class, bool x_finite, unsigned long over)
  {
    const DT d0 = R.def0; const int st = R.status;
    VF_CHECK(st == (int)Status::success || st == (int)Status::aborted || st == (int)Status::diverged || st == (int)Status::max_iter || st == (int)Status::stagnated,
      "S2 solver returned status '" << status_name(st) << "' (not a result status) d0=" << (double)d0 << " iters=" << R.iters);
    // replay
    unsigned long stag = 0;
    for(size_t k = 0; k < R.log.size(); ++k)
    {
      const Step& e = R.log[k]; int ex;
      DT dc = DT(e.dc), dp = DT(e.dp);
      if(!std::isfinite((double)dc)) ex = (int)Status::aborted;
      else if(L.divg(dc, d0)) ex = (int)Status::diverged;
      else if(e.it < L.min_iter) ex = (int)Status::progress;
      else if(L.conv(dc, d0)) ex = (int)Status::success;
      else if(e.it >= L.max_iter) ex = (int)Status::max_iter;
      else
      {
        ex = (int)Status::progress;
        if(e.cs && L.min_stag > 0) { if(dc >= L.stag_rate * dp) { if(++stag >= L.min_stag) ex = (int)Status::stagnated; } else stag = 0; }
      }
      VF_CHECK(ex == e.st, "S2 stop decision at iteration " << e.it << " (def " << e.dc << ", prev " << e.dp << ", d0 " << (double)d0 << "): solver says " << status_name(e.st)
        << ", configured limits give " << status_name(ex) << " [min_iter " << L.min_iter << " max_iter " << L.max_iter << " tol_rel " << (double)L.tol_rel << " tol_abs " << (double)L.tol_abs
        << " tol_abs_low " << (double)L.tol_abs_low << " div_rel " << (double)L.div_rel << " min_stag " << L.min_stag << " stag_rate " << (double)L.stag_rate << " stag_count " << stag << "]");
      if(k + 1 < R.log.size()) VF_CHECK(e.st == (int)Status::progress, "S2 solver continued after its stop logic returned " << status_name(e.st) << " at iteration " << e.it);
    }
    // final state against the limits
    if(R.iters == 0)
    {
      // stopped on the initial defect: success only for d0 < tol_abs_low or d0 ~ 0 (eps^2), abort only for non-finite d0
      if(st == (int)Status::success) VF_CHECK(d0 < L.tol_abs_low || d0 <= DT(std::numeric_limits<DT>::epsilon()) * DT(std::numeric_limits<DT>::epsilon()), "S2 success without iteration although d0=" << (double)d0);
      else VF_CHECK(st == (int)Status::aborted, "S2 status " << status_name(st) << " with 0 iterations, d0=" << (double)d0);
    }
    switch(st)
    {
    case (int)Status::max_iter:
      VF_CHECK(R.iters >= L.max_iter && R.iters <= L.max_iter + over, "S2 status max_iter but num_iter=" << R.iters << " max_iter=" << L.max_iter << " (min_iter " << L.min_iter << ")");
      break;
    case (int)Status::success:
      if(R.iters > 0)
      {
        VF_CHECK(R.iters <= L.max_iter + over, "S2 success with num_iter=" << R.iters << " > max_iter=" << L.max_iter);
        VF_CHECK(R.iters >= L.min_iter, "S2 success with num_iter=" << R.iters << " < min_iter=" << L.min_iter);
        if(!skip_class) VF_CHECK(L.conv(R.defF, d0), "S2 success but reported final defect " << (double)R.defF << " does not satisfy the tolerances (d0 " << (double)d0 << ")");
      }
      break;
    case (int)Status::stagnated:
      VF_CHECK(L.min_stag > 0, "S2 stagnated although min_stag_iter=0");
      VF_CHECK(R.iters >= L.min_iter && R.iters < std::max(L.max_iter, (unsigned long)1) + (L.max_iter == 0 ? 1 : 0), "S2 stagnated at num_iter=" << R.iters << " outside [min_iter,max_iter)");
      {
        VF_CHECK(R.log.size() >= L.min_stag, "S2 stagnated after fewer analysed iterations (" << R.log.size() << ") than min_stag_iter=" << L.min_stag);
        for(size_t k = R.log.size() - L.min_stag; k < R.log.size(); ++k)
          VF_CHECK(DT(R.log[k].dc) >= L.stag_rate * DT(R.log[k].dp), "S2 stagnated but iteration " << R.log[k].it << " reduced the defect " << R.log[k].dp << " -> " << R.log[k].dc << " (rate " << (double)L.stag_rate << ")");
      }
      break;
    case (int)Status::diverged:
      VF_CHECK(L.divg(R.defF, d0), "S2 diverged but final defect " << (double)R.defF << " is within div_abs=" << (double)L.div_abs << " / div_rel*d0=" << (double)(L.div_rel * d0));
      break;
    case (int)Status::aborted:
      // non-finite defect / iterate, or the documented breakdown exits of BiCGStab (omega / beta not finite); BiCGStab(l) is
      // admitted too so that a breakdown test (see findings, proposed patch) is not reported as untruthful
      VF_CHECK(!std::isfinite((double)R.defF) || !std::isfinite((double)d0) || !x_finite || kind == K_BICGSTAB || kind == K_BICGSTABL,
        "S2 aborted although defect " << (double)R.defF << " and iterate are finite (no preconditioner failure possible)");
      break;
    }
  }
} // namespace c07
