// c12_split.hpp - C12: halos of recursively (multi-layered) partitioned meshes.  Parent patches are partitioned again into
// child patches; the halos between children of different parents are obtained the way the control layer does it
// (Geometry::PatchHaloSplitter: split the parent halo on either side, exchange the serialised splits, intersect).
// Oracle: for every pair of children of different parents the halo exists iff they share a base vertex, maps onto
// exactly the shared base entities of every dimension, and both sides list them in the same order.
#pragma once
#include "c12_core.hpp"
#include <kernel/geometry/patch_halo_splitter.hpp>

namespace c12
{
  template<typename Shape_, int d_> struct DimLoop
  {
    typedef MeshOf<Shape_> MeshT; typedef PartOf<Shape_> PartT;
    /// entities of dimension d_ touched by the given base cells
    static void touched(const MeshT& m, const std::vector<FEAT::Index>& cells, std::vector<std::set<FEAT::Index>>& out)
    {
      if constexpr(d_ < Shape_::dimension)
      {
        const auto& is = m.template get_index_set<Shape_::dimension, d_>();
        for(FEAT::Index c : cells) for(int j = 0; j < is.num_indices; ++j) out[(size_t)d_].insert(is(c, j));
        DimLoop<Shape_, d_ + 1>::touched(m, cells, out);
      }
    }
    /// number of entities of the part (per dimension below the cell dimension) that lie in the given entity sets
    static void count_in(const PartT& part, const std::vector<std::set<FEAT::Index>>& ent, std::vector<FEAT::Index>& out)
    {
      if constexpr(d_ < Shape_::dimension)
      {
        const auto& ts = part.template get_target_set<d_>(); FEAT::Index n = 0;
        for(FEAT::Index i = 0; i < ts.get_num_entities(); ++i) if(ent[(size_t)d_].count(ts[i])) ++n;
        out[(size_t)d_] = n;
        DimLoop<Shape_, d_ + 1>::count_in(part, ent, out);
      }
    }
    /// halo entity -> base entity through child-in-parent and parent-in-base target sets
    static void to_base(const PartT& halo, const PartT& cip, const PartT& pib, std::vector<std::vector<FEAT::Index>>& out, std::string& err)
    {
      if constexpr(d_ <= Shape_::dimension)
      {
        const auto& th = halo.template get_target_set<d_>(); const auto& tc = cip.template get_target_set<d_>(); const auto& tp = pib.template get_target_set<d_>();
        for(FEAT::Index i = 0; i < th.get_num_entities(); ++i)
        {
          FEAT::Index ic = th[i]; if(ic >= tc.get_num_entities()) { err = "halo index out of range for the child patch (dim " + std::to_string(d_) + ")"; return; }
          FEAT::Index ip = tc[ic]; if(ip >= tp.get_num_entities()) { err = "child patch index out of range for the parent patch"; return; }
          out[(size_t)d_].push_back(tp[ip]);
        }
        DimLoop<Shape_, d_ + 1>::to_base(halo, cip, pib, out, err);
      }
    }
  };

  template<typename Shape_> inline void split_case(vf::Tape& t, vf::Ctx& c)
  {
    using namespace FEAT; constexpr int sd = Shape_::dimension;
    GenOpts go; go.max_file_cells = (sd == 2 ? 40 + t.size : 12 + t.size / 3); go.lattice_depth = 0; go.tetra_always_factory = true; go.max_n2 = 6; go.max_n3 = 3;
    GenInfo gi; Loaded<Shape_> L = gen_node<Shape_>(t, c, go, gi);
    c.desc = gi.desc; c.desc.set("shape", ShapeInfo<Shape_>::name()); c.label(std::string("shape:") + ShapeInfo<Shape_>::name());
    c10::fail_if_invalid(c, gi);
    const Index ncells = L.node->get_mesh()->get_num_elements();
    c.op = "split";
    if(ncells < 4) { c.label("skipped:too-few-cells"); c.nontrivial = false; c.announce(); return; }
    // parent assignment: 2..3 parents, every parent gets >= 2 cells (first 2*np cells are dealt round robin)
    const int np = 2 + t.range(0, (ncells >= 6) ? 1 : 0); const int pk = t.pick({2, 2, 1});
    std::vector<int> parent_of((size_t)ncells);
    { Chooser ch(t, (size_t)ncells, 48); for(Index i = 0; i < ncells; ++i) parent_of[i] = (pk == 1) ? int((i * Index(np)) / ncells) : (pk == 2 ? int(i % Index(np)) : int(ch.pick(unsigned(np))));
      if(pk == 0) for(int k = 0; k < 2 * np && Index(k) < ncells; ++k) parent_of[(size_t)k] = k % np; }
    Adjacency::Graph pg = graph_of(parent_of, np, false, t);
    std::unique_ptr<NodeOf<Shape_>> base = std::move(L.node);
    std::vector<std::unique_ptr<NodeOf<Shape_>>> pnode((size_t)np); std::vector<std::vector<int>> pcomm((size_t)np);
    c.desc.set("parents", np); c.desc.set("parent_of_cell", vf::J(parent_of)); c.label("parents:" + std::to_string(np));
    static const char* pkn[] = {"parent:random", "parent:contiguous", "parent:interleaved"}; c.label(pkn[pk]);
    // child assignments (decoded before anything runs so that the description is complete)
    std::vector<std::vector<int>> child_of((size_t)np); std::vector<int> nch((size_t)np); std::vector<Index> pcells((size_t)np, 0);
    for(Index i = 0; i < ncells; ++i) pcells[(size_t)parent_of[i]]++;
    vf::J jc = vf::J::arr(); int total_children = 0;
    for(int p = 0; p < np; ++p)
    {
      const Index n = pcells[(size_t)p]; nch[(size_t)p] = 1 + t.range(0, int(std::min<Index>(n, 3)) - 1); const int k = t.pick({2, 2, 1});
      Chooser ch(t, (size_t)n, 32); child_of[(size_t)p].resize((size_t)n);
      for(Index i = 0; i < n; ++i) child_of[(size_t)p][i] = (i < Index(nch[(size_t)p])) ? int(i) : (k == 1 ? int((i * Index(nch[(size_t)p])) / n) : (k == 2 ? int(i % Index(nch[(size_t)p])) : int(ch.pick(unsigned(nch[(size_t)p])))));
      jc.add(vf::J(child_of[(size_t)p])); total_children += nch[(size_t)p];
    }
    c.desc.set("child_of_parent_cell", jc); c.label("children:" + std::to_string(total_children >= 6 ? 6 : total_children));
    c.nontrivial = total_children >= 3; c.announce();

    for(int p = 0; p < np; ++p) pnode[(size_t)p] = base->extract_patch(pcomm[(size_t)p], pg, p);
    const MeshOf<Shape_>& bmesh = *base->get_mesh();
    struct Child { int parent, child, rank; std::vector<Index> base_cells; std::unique_ptr<NodeOf<Shape_>> node; std::unique_ptr<Geometry::PatchHaloSplitter<MeshOf<Shape_>>> splitter;
                   std::map<int, std::vector<Index>> buffer; std::map<int, std::unique_ptr<PartOf<Shape_>>> halos; };
    std::vector<Child> ch; int rank = 0;
    for(int p = 0; p < np; ++p)
    {
      Adjacency::Graph cg = graph_of(child_of[(size_t)p], nch[(size_t)p], false, t);
      for(int k = 0; k < nch[(size_t)p]; ++k)
      {
        Child x; x.parent = p; x.child = k; x.rank = rank++;
        std::vector<int> comm; x.node = pnode[(size_t)p]->extract_patch(comm, cg, k);
        const auto& tc = pnode[(size_t)p]->get_patch(k)->template get_target_set<sd>(); const auto& tp = base->get_patch(p)->template get_target_set<sd>();
        for(Index i = 0; i < tc.get_num_entities(); ++i) x.base_cells.push_back(tp[tc[i]]);
        x.splitter.reset(new Geometry::PatchHaloSplitter<MeshOf<Shape_>>(*pnode[(size_t)p]->get_mesh(), *pnode[(size_t)p]->get_patch(k)));
        for(int q : pcomm[(size_t)p])
        {
          const PartOf<Shape_>* ph = pnode[(size_t)p]->get_halo(q); VF_CHECK(ph != nullptr, "parent " << p << " lists neighbour " << q << " without halo");
          const std::size_t size = x.splitter->add_halo(q, *ph);
          if(size > 0) { x.buffer[q] = x.splitter->serialize_split_halo(q, x.rank); VF_CHECK(x.buffer[q].size() == size, "serialised split halo has " << x.buffer[q].size() << " entries, announced " << size); }
        }
        ch.push_back(std::move(x));
      }
    }
    // exchange + intersect
    for(auto& a : ch) for(auto& b : ch)
    {
      if(a.parent == b.parent) continue;
      auto it = b.buffer.find(a.parent); if(it == b.buffer.end() || it->second.empty()) continue;
      if(std::find(pcomm[(size_t)a.parent].begin(), pcomm[(size_t)a.parent].end(), b.parent) == pcomm[(size_t)a.parent].end()) continue;
      if(a.splitter->intersect_split_halo(b.parent, it->second, Index(0))) a.halos.emplace(b.rank, a.splitter->make_unique());
    }
    // oracle
    std::vector<std::vector<std::set<Index>>> ent(ch.size(), std::vector<std::set<Index>>((size_t)sd));
    for(size_t i = 0; i < ch.size(); ++i) DimLoop<Shape_, 0>::touched(bmesh, ch[i].base_cells, ent[i]);
    { std::vector<int> cnt((size_t)ncells, 0); for(auto& x : ch) for(Index cc : x.base_cells) cnt[cc]++; for(Index i = 0; i < ncells; ++i) VF_CHECK(cnt[i] == 1, "base cell " << i << " is in " << cnt[i] << " child patches"); }
    std::map<std::pair<int, int>, std::vector<std::vector<Index>>> seq;
    for(size_t i = 0; i < ch.size(); ++i) for(size_t j = 0; j < ch.size(); ++j)
    {
      const Child& a = ch[i]; const Child& b = ch[j]; if(a.parent == b.parent) continue;
      std::vector<std::vector<Index>> expect((size_t)sd);
      for(int d = 0; d < sd; ++d) for(Index e : ent[i][(size_t)d]) if(ent[j][(size_t)d].count(e)) expect[(size_t)d].push_back(e);
      auto it = a.halos.find(b.rank);
      if(expect[0].empty()) { VF_CHECK(it == a.halos.end(), "children " << a.rank << " and " << b.rank << " share no base vertex but have a halo"); continue; }
      VF_CHECK(it != a.halos.end(), "children " << a.rank << " (parent " << a.parent << ") and " << b.rank << " (parent " << b.parent << ") share " << expect[0].size() << " base vertices but are not neighbours");
      std::vector<std::vector<Index>> have((size_t)sd + 1); std::string err;
      DimLoop<Shape_, 0>::to_base(*it->second, *pnode[(size_t)a.parent]->get_patch(a.child), *base->get_patch(a.parent), have, err);
      VF_CHECK(err.empty(), "halo " << a.rank << "->" << b.rank << ": " << err);
      VF_CHECK(have[(size_t)sd].empty(), "halo " << a.rank << "->" << b.rank << " contains cells");
      for(int d = 0; d < sd; ++d)
      {
        std::vector<Index> hs = have[(size_t)d]; std::sort(hs.begin(), hs.end());
        VF_CHECK(std::adjacent_find(hs.begin(), hs.end()) == hs.end(), "halo " << a.rank << "->" << b.rank << " lists a dim-" << d << " entity twice");
        VF_CHECK(hs == expect[(size_t)d], "halo " << a.rank << "->" << b.rank << " dim " << d << " maps to " << hs.size() << " base entities, the children share " << expect[(size_t)d].size() << " (or different ones)");
      }
      have.resize((size_t)sd); seq[{a.rank, b.rank}] = have;
    }
    for(auto& kv : seq) { auto rv = seq.find({kv.first.second, kv.first.first}); VF_CHECK(rv != seq.end(), "neighbour relation of children not symmetric");
      VF_CHECK(kv.second == rv->second, "halos " << kv.first.first << "<->" << kv.first.second << " list the shared base entities in different orders"); }

    // ---- the explicit element-list overload extract_patch(elements, split_meshparts, split_halos, split_patches), called
    // several times on ONE parent node with generated flags (draws appended behind all earlier ones): the extracted mesh
    // consists of exactly the listed cells; halos / patch mesh-parts / named mesh-parts are carried over iff the documented
    // flag says so; a carried-over halo holds exactly the parent halo vertices that belong to the listed cells.
    {
      const int p = t.range(0, np - 1); NodeOf<Shape_>& pn = *pnode[(size_t)p]; const MeshOf<Shape_>& pm = *pn.get_mesh(); const Index pc = pm.get_num_elements();
      const auto& pv = pm.get_vertex_set(); const auto& pis = pm.template get_index_set<sd, 0>();
      const int ncalls = 1 + t.range(0, 2); vf::J jx = vf::J::arr();
      for(int call = 0; call < ncalls; ++call)
      {
        std::vector<Index> cells; { Chooser chs(t, (size_t)pc, 24); for(Index i = 0; i < pc; ++i) if(chs.pick(2u) == 1u) cells.push_back(i); } if(cells.empty()) cells.push_back(Index(t.range(0, int(pc) - 1)));
        const bool sm = t.flag(1, 2), sh = t.flag(1, 2), sp = t.flag(1, 2);
        { vf::J e = vf::J::obj(); e.set("parent", p); e.set("cells", vf::J(std::vector<long>(cells.begin(), cells.end()))); e.set("split_meshparts", sm); e.set("split_halos", sh); e.set("split_patches", sp); jx.add(e); c.desc.set("explicit_extractions", jx); }
        c.op = "explicit-list"; c.label(std::string("explicit:halos=") + (sh ? "1" : "0") + ",patches=" + (sp ? "1" : "0")); if(call > 0) c.label("explicit:repeated-on-one-node"); c.announce();
        std::vector<Index> arg(cells); auto sub = pn.extract_patch(std::move(arg), sm, sh, sp);
        VF_CHECK(sub && sub->get_mesh(), "explicit-list extract_patch returned no mesh");
        const MeshOf<Shape_>& smesh = *sub->get_mesh();
        VF_CHECK(smesh.get_num_elements() == Index(cells.size()), "explicit-list extract_patch (call " << call << " on this node): the patch has " << smesh.get_num_elements() << " cells, " << cells.size() << " were listed");
        { // same cells geometrically: multiset of sorted vertex-coordinate tuples
          auto key = [&](const MeshOf<Shape_>& m, Index cc) { std::vector<std::vector<double>> q; const auto& is = m.template get_index_set<sd, 0>(); const auto& vs = m.get_vertex_set();
            for(int j = 0; j < is.num_indices; ++j) { std::vector<double> xx; for(int a = 0; a < MeshOf<Shape_>::world_dim; ++a) xx.push_back(double(vs[is(cc, j)][a])); q.push_back(xx); } std::sort(q.begin(), q.end()); return q; };
          std::multiset<std::vector<std::vector<double>>> want, have; for(Index cc : cells) want.insert(key(pm, cc)); for(Index cc = 0; cc < smesh.get_num_elements(); ++cc) have.insert(key(smesh, cc));
          VF_CHECK(want == have, "explicit-list extract_patch (call " << call << " on this node): the extracted cells are not the listed ones"); }
        std::set<Index> pverts; for(Index cc : cells) for(int j = 0; j < pis.num_indices; ++j) pverts.insert(pis(cc, j)); (void)pv;
        // halos
        if(!sh) VF_CHECK(sub->get_halo_map().empty(), "split_halos=false but the extracted patch carries " << sub->get_halo_map().size() << " halos");
        else for(int q : pcomm[(size_t)p])
        {
          const PartOf<Shape_>* ph = pn.get_halo(q); if(ph == nullptr) continue; Index expect = 0; const auto& tv = ph->template get_target_set<0>(); for(Index i = 0; i < tv.get_num_entities(); ++i) if(pverts.count(tv[i])) ++expect;
          std::vector<std::set<Index>> cent((size_t)sd); DimLoop<Shape_, 0>::touched(pm, cells, cent); std::vector<Index> expd((size_t)sd, 0); DimLoop<Shape_, 0>::count_in(*ph, cent, expd);
          const PartOf<Shape_>* hh = sub->get_halo(q);
          if(expect == 0) { VF_CHECK(hh == nullptr || hh->get_num_entities(0) == 0, "extracted patch has a halo towards " << q << " although it shares no vertex with that halo"); continue; }
          VF_CHECK(hh != nullptr, "split_halos=true: the listed cells touch " << expect << " vertices of the parent halo towards " << q << " but the extracted patch has no such halo");
          VF_CHECK(hh->get_num_entities(0) == expect, "halo towards " << q << " of the extracted patch has " << hh->get_num_entities(0) << " vertices, the listed cells touch " << expect << " of the parent halo");
          for(int d = 1; d < sd; ++d) VF_CHECK(hh->get_num_entities(d) == expd[(size_t)d], "halo towards " << q << " of the extracted patch has " << hh->get_num_entities(d) << " entities of dimension " << d << ", the parent halo has " << expd[(size_t)d] << " in the closure of the listed cells");
          VF_CHECK(hh->get_num_entities(sd) == 0, "halo towards " << q << " of the extracted patch contains cells");
        }
        // patch mesh-parts (children k >= 0 of the parent were created by the graph overload above)
        Index npatch = 0; for(const auto& kv : sub->get_patch_map()) if(kv.first >= 0 && kv.second) ++npatch;
        if(!sp) VF_CHECK(npatch == 0, "split_patches=false but the extracted patch carries " << npatch << " child patch mesh-parts");
        else
        {
          Index covered = 0; for(int k = 0; k < nch[(size_t)p]; ++k) { const PartOf<Shape_>* cp = sub->get_patch(k); if(cp) covered += cp->get_num_entities(sd); }
          VF_CHECK(covered == Index(cells.size()), "split_patches=true: the child patch mesh-parts carried over cover " << covered << " of the " << cells.size() << " extracted cells");
        }
        // named mesh-parts
        if(!sm) VF_CHECK(sub->get_mesh_part_names().empty(), "split_meshparts=false but the extracted patch carries mesh parts");
        else VF_CHECK(sub->get_mesh_part_names().size() == pn.get_mesh_part_names().size(), "split_meshparts=true: " << sub->get_mesh_part_names().size() << " mesh part names carried over, the parent has " << pn.get_mesh_part_names().size());
      }
    }
  }

  template<typename Shape_> inline void register_split(std::vector<vf::Target>& tg)
  {
    tg.push_back({std::string(ShapeInfo<Shape_>::name()) + "_split", [](vf::Tape& t, vf::Ctx& c) { split_case<Shape_>(t, c); }, 224, 3, 30000});
  }
}
