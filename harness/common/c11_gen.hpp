// c11_gen.hpp - C11 structured generators (rapidcheck tape -> mesh node / atlas / partition set), the round-trip
// property (A) and the fault property (truncation / count / dimension / index / tag mutations must be rejected).
#pragma once
#include "c11_mesh.hpp"
#include <dirent.h>
#include <sys/stat.h>

namespace c11
{
  using vf::Tape; using vf::Ctx;

  // ------------------------------------------------------------------------------------------------------------
  // shipped mesh files: listed once in the parent process (before any fork), sorted by (size, name)
  // ------------------------------------------------------------------------------------------------------------
  struct MeshFile { std::string name, type; long size = 0; bool surfmesh = false; };
  inline std::vector<MeshFile>& mesh_files() { static std::vector<MeshFile> v; return v; }
  inline std::string mesh_dir() { return std::string(FEAT_SOURCE_DIR) + "/data/meshes/"; }
  inline void init_files()
  {
    auto& v = mesh_files(); v.clear();
    DIR* d = opendir(mesh_dir().c_str()); if(!d) return;
    while(dirent* e = readdir(d))
    {
      std::string n = e->d_name; if(n.size() < 5 || n.substr(n.size() - 4) != ".xml") continue;
      struct stat st; if(stat((mesh_dir() + n).c_str(), &st)) continue;
      std::ifstream f(mesh_dir() + n); std::string first; std::getline(f, first);
      MeshFile mf; mf.name = n; mf.size = (long)st.st_size;
      size_t p = first.find("mesh=\""); if(p != std::string::npos) { size_t q = first.find('"', p + 6); mf.type = first.substr(p + 6, q - p - 6); }
      { std::stringstream ss; ss << first << "\n" << f.rdbuf(); mf.surfmesh = ss.str().find("<SurfaceMesh") != std::string::npos; }
      v.push_back(mf);
    }
    closedir(d);
    std::sort(v.begin(), v.end(), [](const MeshFile& a, const MeshFile& b) { return a.size != b.size ? a.size < b.size : a.name < b.name; });
  }
  inline bool deep() { static int d = -1; if(d < 0) { const char* e = getenv("C11_DEEP"); d = (e && *e == '1') ? 1 : 0; } return d == 1; }
  template<typename M> inline std::vector<const MeshFile*> files_for(bool chart_only, bool no_surfmesh)
  {
    std::vector<const MeshFile*> r; long lim = deep() ? 200000 : 16000;
    for(auto& f : mesh_files())
    {
      if(f.size > lim) continue;
      if(no_surfmesh && f.surfmesh) continue;
      if(chart_only) { if(f.type.empty() && M::world_dim == 2 && f.name.find("2d_chart") != std::string::npos) r.push_back(&f); }
      else if(f.type == ShapeInfo<M>::type()) r.push_back(&f);
    }
    return r;
  }

  // ------------------------------------------------------------------------------------------------------------
  // small helpers
  // ------------------------------------------------------------------------------------------------------------
  inline double gen_real(Tape& t, int cls) { return t.real(cls); }
  /// names: what an XML attribute value can carry verbatim (the scanner trims values and forbids '"', '<', '>')
  inline std::string gen_name(Tape& t, int idx, bool allow_internal)
  {
    static const char* base[] = { "p", "bnd", "inner", "bnd:l", "a.b", "x-1", "my part", "k=v", "A_B", "7up", "p/q", "it's", "[s]", "a&b" };
    int k = t.range(0, (int)(sizeof(base) / sizeof(base[0])) - 1);
    std::string n = std::string(base[k]) + std::to_string(idx);
    if(allow_internal && t.flag(1, 4)) n = "_" + n;
    return n;
  }
  /// subset of {0..n-1}: per-element flags for small n, (start, stride, count) otherwise; sorted ascending
  inline std::vector<Index> gen_subset(Tape& t, Index n, bool nonempty)
  {
    std::vector<Index> r; if(n == 0) return r;
    if(n <= 24) { unsigned num = (unsigned)t.range(0, 4); for(Index i = 0; i < n; ++i) if(t.flag(num + 1, 6)) r.push_back(i); }
    else { Index s = (Index)t.range(0, (int)std::min<Index>(n - 1, 1000)); Index st = (Index)t.range(1, 7); Index cnt = (Index)t.sized(0, 40); for(Index i = s, k = 0; i < n && k < cnt; i += st, ++k) r.push_back(i); }
    if(nonempty && r.empty()) r.push_back((Index)t.range(0, (int)std::min<Index>(n - 1, 1000)));
    return r;
  }

  // reference cells and their orientation preserving symmetries (local vertex renumberings new[i] = old[s[i]])
  template<typename Shape_> struct CellSym;
  template<> struct CellSym<Shape::Hypercube<2>>
  {
    static constexpr int nv = 4;
    static std::vector<std::array<int, 8>> gens() { return { {2, 0, 3, 1} }; }
  };
  template<> struct CellSym<Shape::Simplex<2>>
  {
    static constexpr int nv = 3;
    static std::vector<std::array<int, 8>> gens() { return { {1, 2, 0} }; }
  };
  template<> struct CellSym<Shape::Hypercube<3>>
  {
    static constexpr int nv = 8;
    // rotation about z: (x,y,z) <- quad rotation in both layers; rotation about x: new(x,y,z) = old(x, z, 1-y)
    static std::vector<std::array<int, 8>> gens()
    {
      std::array<int, 8> rz = {2, 0, 3, 1, 6, 4, 7, 5}, rx{};
      for(int i = 0; i < 8; ++i) { int x = i & 1, y = (i >> 1) & 1, z = (i >> 2) & 1; int ox = x, oy = z, oz = 1 - y; rx[(size_t)i] = ox + 2 * oy + 4 * oz; }
      return { rz, rx };
    }
  };
  template<> struct CellSym<Shape::Simplex<3>>
  {
    static constexpr int nv = 4;
    static std::vector<std::array<int, 8>> gens() { return { {1, 2, 0, 3}, {0, 2, 3, 1} }; }
  };

  /// minimal cell complexes: 1 or 2 reference cells; returns vertex coordinates and vertex-at-cell lists
  template<typename M> inline void tiny_complex(int ncells, std::vector<std::array<double, 3>>& vtx, std::vector<std::vector<Index>>& cells)
  {
    typedef typename M::ShapeType S;
    if constexpr(std::is_same<S, Shape::Hypercube<2>>::value)
    {
      vtx = { {0, 0, 0}, {1, 0, 0}, {0, 1, 0}, {1, 1, 0}, {2, 0, 0}, {2, 1, 0} }; cells = { {0, 1, 2, 3}, {1, 4, 3, 5} };
      if(ncells == 1) { vtx.resize(4); cells.resize(1); }
    }
    else if constexpr(std::is_same<S, Shape::Simplex<2>>::value)
    {
      vtx = { {0, 0, 0}, {1, 0, 0}, {0, 1, 0}, {1, 1, 0} }; cells = { {0, 1, 2}, {1, 3, 2} };
      if(ncells == 1) { vtx.resize(3); cells.resize(1); }
    }
    else if constexpr(std::is_same<S, Shape::Hypercube<3>>::value)
    {
      vtx.clear(); for(int z = 0; z < 2; ++z) for(int y = 0; y < 2; ++y) for(int x = 0; x < 3; ++x) vtx.push_back({double(x), double(y), double(z)});
      cells = { {0, 1, 3, 4, 6, 7, 9, 10}, {1, 2, 4, 5, 7, 8, 10, 11} };
      if(ncells == 1) { vtx.clear(); for(int z = 0; z < 2; ++z) for(int y = 0; y < 2; ++y) for(int x = 0; x < 2; ++x) vtx.push_back({double(x), double(y), double(z)}); cells = { {0, 1, 2, 3, 4, 5, 6, 7} }; }
    }
    else
    {
      vtx = { {0, 0, 0}, {1, 0, 0}, {0, 1, 0}, {0, 0, 1}, {1, 1, 1} }; cells = { {0, 1, 2, 3}, {1, 2, 3, 4} };
      if(ncells == 1) { vtx.resize(4); cells.resize(1); }
    }
  }

  /// build a mesh from vertex coordinates and vertex-at-cell lists the way feat3 does it for surface meshes
  template<typename M> inline std::unique_ptr<M> mesh_from_top(const std::vector<std::array<double, 3>>& vtx, const std::vector<std::vector<Index>>& cells)
  {
    constexpr int dim = M::shape_dim;
    Index ne[4] = {0, 0, 0, 0}; ne[0] = (Index)vtx.size(); ne[dim] = (Index)cells.size();
    std::unique_ptr<M> m(new M(ne));
    auto& vs = m->get_vertex_set(); for(Index i = 0; i < ne[0]; ++i) for(int k = 0; k < M::world_dim; ++k) vs[i][k] = vtx[(size_t)i][(size_t)k];
    auto& is = m->template get_index_set<dim, 0>(); for(Index i = 0; i < ne[dim]; ++i) for(int k = 0; k < is.num_indices; ++k) is[i][k] = cells[(size_t)i][(size_t)k];
    m->deduct_topology_from_top();
    return m;
  }

  // ------------------------------------------------------------------------------------------------------------
  // charts by construction
  // ------------------------------------------------------------------------------------------------------------
  template<typename SM> inline std::unique_ptr<Atlas::Circle<SM>> gen_circle(Tape& t, int vcls, J& d)
  {
    // reader rejects radius < 1e-5 and the constructor asserts radius > 0: radius in [1e-3, 1e3] (domain fact)
    double r = std::fabs(t.real_nz(vcls == 0 ? 0 : 2)); if(r < 1e-3) r = 1e-3;
    double mx = gen_real(t, vcls), my = gen_real(t, vcls);
    d.set("type", "circle"); d.set("r", r);
    if(t.flag(1, 2))
    {
      // parameter interval [l, r] with l != r (equal end points make the stored factor 2pi/(r-l) infinite)
      double l = gen_real(t, vcls), w = t.real_nz(vcls); d.set("domain", true);
      return std::unique_ptr<Atlas::Circle<SM>>(new Atlas::Circle<SM>(mx, my, r, l, l + w));
    }
    return std::unique_ptr<Atlas::Circle<SM>>(new Atlas::Circle<SM>(mx, my, r));
  }
  template<typename SM> inline std::unique_ptr<Atlas::Bezier<SM>> gen_bezier(Tape& t, int vcls, J& d)
  {
    typedef Atlas::Bezier<SM> B; typedef typename B::WorldPoint WP; typedef typename B::ParamPoint PP;
    bool closed = t.flag(1, 2); double ori = t.flag(1, 3) ? -1.0 : 1.0;
    std::unique_ptr<B> b(new B(closed, ori));
    int np = 2 + t.sized(0, 8); bool par = t.flag(1, 2); int maxc = 0;
    auto pt = [&]() { WP p; p[0] = gen_real(t, vcls); p[1] = gen_real(t, vcls); return p; };
    b->push_vertex(pt());
    for(int i = 1; i < np; ++i) { int nc = t.pick({5, 2, 1, 1, 1}); maxc = std::max(maxc, nc); for(int k = 0; k < nc; ++k) b->push_control(pt()); b->push_vertex(pt()); }
    if(par) { double x = gen_real(t, vcls); for(int i = 0; i < np; ++i) { PP p; p[0] = x; b->push_param(p); x += std::fabs(t.real_nz(vcls)); } }
    d.set("type", "bezier"); d.set("points", np); d.set("closed", closed); d.set("orient", ori); d.set("params", par); d.set("max_ctrl", maxc);
    return b;
  }
  template<typename M> inline std::unique_ptr<Atlas::ChartBase<M>> gen_chart(Tape& t, Ctx& c, int vcls, J& d, bool allow_surfmesh = false)
  {
    if constexpr(M::world_dim == 2)
    {
      if(t.pick({1, 1}) == 0) { c.label("chart:circle"); return gen_circle<M>(t, vcls, d); }
      c.label("chart:bezier"); return gen_bezier<M>(t, vcls, d);
    }
    else
    {
      typedef typename SubMeshOf<M>::Type SM;
      int k = t.pick({2, 2, 2, 2});
      if(k == 1 && c.excl("c11-surfmesh-write") && !allow_surfmesh) k = 0;   // known finding: SurfaceMesh::write() omits the final newline
      if(k == 0)
      {
        c.label("chart:sphere"); double r = std::fabs(t.real_nz(vcls == 0 ? 0 : 2)); if(r < 1e-3) r = 1e-3; d.set("type", "sphere"); d.set("r", r);
        double x = gen_real(t, vcls), y = gen_real(t, vcls), z = gen_real(t, vcls);
        return std::unique_ptr<Atlas::ChartBase<M>>(new Atlas::Sphere<M>(x, y, z, r));
      }
      if(k == 1)
      {
        c.label("chart:surfmesh");
        typedef typename Atlas::SurfaceMesh<M>::SurfaceMeshType SMT;
        int nv = 3 + t.sized(0, 9); int nt = nv - 2; d.set("type", "surfmesh"); d.set("verts", nv); d.set("trias", nt);
        Index ne[3] = { (Index)nv, 0, (Index)nt };
        std::unique_ptr<SMT> sm(new SMT(ne));
        auto& vs = sm->get_vertex_set(); for(int i = 0; i < nv; ++i) for(int q = 0; q < 3; ++q) vs[(Index)i][q] = gen_real(t, vcls);
        auto& is = sm->template get_index_set<2, 0>();
        for(int i = 0; i < nt; ++i) { is[(Index)i][0] = (Index)i; is[(Index)i][1] = (Index)(i + 1 + (i & 1)); is[(Index)i][2] = (Index)(i + 2 - (i & 1)); }   // triangle strip
        sm->deduct_topology_from_top();
        return std::unique_ptr<Atlas::ChartBase<M>>(new Atlas::SurfaceMesh<M>(std::move(sm)));
      }
      // extrude: angles in revolutions (file unit), the chart takes radians
      auto rev = [&]() { int q = t.pick({3, 2, 3}); if(q == 0) return 0.0; if(q == 1) return double(t.range(-7, 7)) / 16.0; double x = gen_real(t, 2); return x - std::floor(x) - 0.5; };
      double ox = 0, oy = 0, fx = 0, fy = 0, fz = 0, ay = 0, ap = 0, ar = 0;
      // origin/offset: magnitudes 0 or >= 1e-3 (DESIGN 2.11).  Domain fact (false alarm of the thorough tier fixed): the writer
      // treats an origin/offset with |v|^2 <= eps^0.7 (|v| < 3.3e-6) as "not given"; the wide value class produced 1.4e-6
      const int ecls = std::min(vcls, 2);
      if(t.flag(1, 2)) { ox = gen_real(t, ecls); oy = gen_real(t, ecls); }
      if(t.flag(1, 2)) { fx = gen_real(t, ecls); fy = gen_real(t, ecls); fz = gen_real(t, ecls); }
      if(t.flag(1, 2)) { ay = rev(); ap = rev() / 2.0; ar = rev();    // pitch in [-1/4, 1/4] revolutions (range of the yaw-pitch-roll representation)
        const int gl = t.pick({4, 1, 1}); if(gl == 1) ap = 0.25; else if(gl == 2) ap = -0.25; }   // gimbal lock: pitch exactly +-90 degrees (own branches of the writer's angle reconstruction)
      const double tp = 2.0 * Math::pi<double>();
      J ang = J::arr(); ang.add(ay); ang.add(ap); ang.add(ar); d.set("angles_rev", ang);
      if(k == 2)
      {
        c.label("chart:extrude-circle"); J sd = J::obj(); auto sub = gen_circle<SM>(t, vcls, sd); d.set("type", "extrude"); d.set("sub", sd);
        std::unique_ptr<Atlas::Extrude<M, Atlas::Circle<SM>>> e(new Atlas::Extrude<M, Atlas::Circle<SM>>(std::move(sub)));
        e->set_origin(ox, oy); e->set_offset(fx, fy, fz); e->set_angles(tp * ay, tp * ap, tp * ar); return e;
      }
      c.label("chart:extrude-bezier"); J sd = J::obj(); auto sub = gen_bezier<SM>(t, vcls, sd); d.set("type", "extrude"); d.set("sub", sd);
      std::unique_ptr<Atlas::Extrude<M, Atlas::Bezier<SM>>> e(new Atlas::Extrude<M, Atlas::Bezier<SM>>(std::move(sub)));
      e->set_origin(ox, oy); e->set_offset(fx, fy, fz); e->set_angles(tp * ay, tp * ap, tp * ar); return e;
    }
  }

  // ------------------------------------------------------------------------------------------------------------
  // mesh parts by construction
  // ------------------------------------------------------------------------------------------------------------
  template<typename M> inline std::unique_ptr<MeshPart<M>> gen_part(Tape& t, Ctx& c, const M& m, int vcls, J& d)
  {
    constexpr int dim = M::shape_dim; typedef MeshPart<M> P;
    int kind = t.pick({3, 2, 2, 4, 1});
    std::unique_ptr<P> part;
    std::vector<std::vector<Index>> sets((size_t)dim + 1);
    bool topo = false;
    if(kind == 0)
    {
      c.label("part:boundary"); d.set("kind", "boundary");
      BoundaryFactory<M> bf(m); part.reset(new P(bf));
    }
    else
    {
      if(kind == 1) { c.label("part:vertices"); d.set("kind", "vertices"); sets[0] = gen_subset(t, m.get_num_entities(0), false); }
      else if(kind == 2) { c.label("part:subsets"); d.set("kind", "subsets"); for(int q = 0; q <= dim; ++q) if(t.flag(2, 3)) sets[(size_t)q] = gen_subset(t, m.get_num_entities(q), false); }
      else if(kind == 3)
      {
        // entities of one dimension cd >= 1 plus the vertices they touch (optionally all their faces), topology deduced by feat3
        // Domain fact (false alarm fixed): a part with topology is closed under taking faces - every shipped file and every
        // feat3 factory produces complete chains (n vertices, n-1 edges, ...).  For a part that lists cells but not their edges
        // deduct_topology()/RedundantIndexSetBuilder invents the edges in the index set while get_num_entities(1) stays 0, and
        // the writer then emits size="4 0 1" next to a 4-line <Topology dim="1"> which no reader accepts.  No caller builds that.
        int cd = t.flag(1, 2) ? dim : t.range(1, dim); const bool complete = true; topo = true;
        c.label("part:topology"); d.set("kind", "topology"); d.set("cell_dim", cd);
        sets[(size_t)cd] = gen_subset(t, m.get_num_entities(cd), true);
        std::vector<std::set<Index>> sub((size_t)dim + 1);
        for_dims<1, dim>([&](auto dc) {
          constexpr int q = decltype(dc)::value;
          if(q != cd) return;
          for(Index ci : sets[(size_t)q])
          {
            for_dims<0, q - 1>([&](auto fc) {
              constexpr int f = decltype(fc)::value;
              const auto& is = m.template get_index_set<q, f>();
              for(int k = 0; k < is.num_indices; ++k) sub[(size_t)f].insert(is[ci][k]);
            });
          }
        });
        for(int f = 0; f < cd; ++f) if(f == 0 || complete) sets[(size_t)f].assign(sub[(size_t)f].begin(), sub[(size_t)f].end());
      }
      else { c.label("part:empty"); d.set("kind", "empty"); topo = t.flag(1, 2); }
      if(kind != 3 && kind != 4 && t.flag(1, 4)) for(auto& s : sets) std::reverse(s.begin(), s.end());   // target sets need not be sorted
      Index ne[4] = {0, 0, 0, 0}; for(int q = 0; q <= dim; ++q) ne[q] = (Index)sets[(size_t)q].size();
      part.reset(new P(ne, topo));
      for_dims<0, dim>([&](auto dc) { constexpr int q = decltype(dc)::value; auto& ts = part->template get_target_set<q>(); for(Index i = 0; i < ts.get_num_entities(); ++i) ts[i] = sets[(size_t)q][(size_t)i]; });
      if(kind == 3) part->deduct_topology(*m.get_topology());
    }
    J ne = J::arr(); for(int q = 0; q <= dim; ++q) ne.add((long long)part->get_num_entities(q)); d.set("size", ne); d.set("topology", part->has_topology());
    // attributes: one row per part vertex (what the reader allocates); the format documentation asks for a topology on
    // parts with attributes, the API does not - both are generated and labelled
    int na = t.pick({5, 2, 1}); J ja = J::arr();
    for(int a = 0; a < na; ++a)
    {
      int ad = t.range(1, 3); Index n = part->get_num_entities(0);
      std::unique_ptr<AttributeSet<typename P::AttributeDataType>> as(new AttributeSet<typename P::AttributeDataType>(n, ad));
      double b0 = gen_real(t, vcls), st = gen_real(t, vcls);
      for(Index i = 0; i < n; ++i) for(int k = 0; k < ad; ++k) (*as)(i, k) = (n * Index(ad) <= 48) ? gen_real(t, vcls) : b0 + st * double(i * Index(ad) + Index(k));
      std::string an = (a == 0 && t.flag(1, 2)) ? "param" : gen_name(t, a, false);
      part->add_attribute(std::move(as), an); J x = J::obj(); x.set("name", an); x.set("dim", ad); ja.add(x);
      c.label(part->has_topology() ? "attr:with-topology" : "attr:no-topology");
    }
    d.set("attrs", ja);
    return part;
  }

  inline Partition gen_partition(Tape& t, Ctx& c, Index nelems, int idx, J& d)
  {
    // patches are read back through a DynamicGraph (sorted, duplicate free): generated sorted and distinct (domain fact).
    // level >= 0 (reader rejects negative levels), at least one rank.
    Index nr = (Index)t.range(1, 6); std::vector<Index> ptr(1, 0), idx_v;
    int mode = t.pick({3, 2, 1});   // disjoint cover, overlapping random, with empty patches
    for(Index r = 0; r < nr; ++r)
    {
      if(mode == 0) { for(Index e = 0; e < nelems; ++e) if(e * nr / std::max<Index>(nelems, 1) == r) idx_v.push_back(e); }
      else if(!(mode == 2 && t.flag(1, 2))) { for(Index e : gen_subset(t, nelems, false)) idx_v.push_back(e); }
      ptr.push_back((Index)idx_v.size());
    }
    static const char* nm[] = { "", "auto", "metis 2", "a:b" };
    std::string name = nm[t.range(0, 3)]; if(!name.empty()) name += std::to_string(idx);
    int prio = t.range(0, 7) - 2, level = t.range(0, 3);
    c.label(mode == 0 ? "partition:cover" : (mode == 1 ? "partition:overlap" : "partition:empty-patches"));
    d.set("name", name); d.set("ranks", (long long)nr); d.set("elems", (long long)nelems); d.set("prio", prio); d.set("level", level); d.set("indices", (long long)idx_v.size());
    Index dummy = 0;
    Adjacency::Graph g(nr, nelems, (Index)idx_v.size(), ptr.data(), idx_v.empty() ? &dummy : idx_v.data());
    return Partition(std::move(g), name, prio, level);
  }

  // ------------------------------------------------------------------------------------------------------------
  // the whole case
  // ------------------------------------------------------------------------------------------------------------
  struct CaseOpts { bool skip_internal = true, indent = true; int streams = 1; bool small = false; };

  template<typename M> inline void gen_bundle(Tape& t, Ctx& c, Bundle<M>& x, J& d, CaseOpts& o)
  {
    constexpr int dim = M::shape_dim; typedef typename M::ShapeType S;
    d.set("shape", ShapeInfo<M>::tag());
    int vcls = t.pick({2, 2, 3, 1}); d.set("value_class", vcls); c.label("values:" + std::to_string(vcls));
    int src = o.small ? t.pick({3, 4, 1, 1, 0}) : t.pick({4, 4, 5, 1, 1});
    std::unique_ptr<M> mesh; bool from_file = false;
    if(src == 0)
    {
      int lvl = o.small ? t.range(0, 1) : t.sized(0, (dim == 3 ? 2 : 3), 1); d.set("source", "unit-cube-factory"); d.set("level", lvl); c.label("src:factory");
      RefinedUnitCubeFactory<M> f((Index)lvl); mesh.reset(new M(f));
    }
    else if(src == 1)
    {
      // re-numbered / re-oriented: base complex, vertex permutation, cell permutation, per-cell symmetry, rebuilt from the top
      std::vector<std::array<double, 3>> vtx; std::vector<std::vector<Index>> cells;
      int base = t.pick({2, 2, 2}); c.label("src:renumbered");
      if(base < 2) { tiny_complex<M>(base + 1, vtx, cells); d.set("source", base == 0 ? "one-cell" : "two-cells"); }
      else
      {
        int lvl = (dim == 3 || o.small) ? 1 : t.range(1, 2); d.set("source", "factory-renumbered"); d.set("level", lvl);
        RefinedUnitCubeFactory<M> f((Index)lvl); M bm(f);
        const auto& vs = bm.get_vertex_set(); for(Index i = 0; i < vs.get_num_vertices(); ++i) { std::array<double, 3> p{0, 0, 0}; for(int k = 0; k < dim; ++k) p[(size_t)k] = vs[i][k]; vtx.push_back(p); }
        const auto& is = bm.template get_index_set<dim, 0>(); for(Index i = 0; i < is.get_num_entities(); ++i) { std::vector<Index> cv; for(int k = 0; k < is.num_indices; ++k) cv.push_back(is[i][k]); cells.push_back(cv); }
      }
      size_t nv = vtx.size(), nc = cells.size();
      std::vector<Index> vp(nv), cp(nc); for(size_t i = 0; i < nv; ++i) vp[i] = (Index)i; for(size_t i = 0; i < nc; ++i) cp[i] = (Index)i;
      bool pv = t.flag(2, 3), pc = t.flag(2, 3), sym = t.flag(2, 3); d.set("perm_vertices", pv); d.set("perm_cells", pc); d.set("cell_symmetries", sym);
      if(pv) for(size_t i = nv; i > 1; --i) std::swap(vp[i - 1], vp[(size_t)t.range(0, (int)i - 1)]);   // Fisher-Yates from the tape
      if(pc) for(size_t i = nc; i > 1; --i) std::swap(cp[i - 1], cp[(size_t)t.range(0, (int)i - 1)]);
      std::vector<std::array<double, 3>> nvtx(nv); for(size_t i = 0; i < nv; ++i) nvtx[(size_t)vp[i]] = vtx[i];
      std::vector<std::vector<Index>> ncells(nc); auto gens = CellSym<S>::gens();
      for(size_t i = 0; i < nc; ++i)
      {
        std::vector<Index> cv = cells[i];
        if(sym) { int reps = t.range(0, 5); for(int r = 0; r < reps; ++r) { const auto& g = gens[(size_t)t.range(0, (int)gens.size() - 1)]; std::vector<Index> nw(cv.size()); for(size_t k = 0; k < cv.size(); ++k) nw[k] = cv[(size_t)g[k]]; cv = nw; } }
        for(auto& v : cv) v = vp[(size_t)v];
        ncells[(size_t)cp[i]] = cv;
      }
      mesh = mesh_from_top<M>(nvtx, ncells);
    }
    else if(src == 2 || src == 4)
    {
      auto fl = files_for<M>(src == 4, c.excl("c11-surfmesh-write"));
      if(fl.empty()) { src = 3; }
      else
      {
        const MeshFile* f = fl[(size_t)t.sized(0, (int)fl.size() - 1, 3)]; d.set("source", "file:" + f->name); c.label(src == 4 ? "src:chart-file" : "src:file"); from_file = true;
        std::string txt; if(!vf::read_file(mesh_dir() + f->name, txt)) throw vf::Discard{"cannot read " + f->name};
        // shipped files are valid input by definition; a failure here is a finding of its own.  The screws_2d_mesh_* files keep
        // their charts in a companion file and are read as two streams, the way navier_stokes_screws-app does it (domain fact:
        // read alone they end in MeshNodeLinkerError "Chart 'screw:i' not found" - first alarm of the thorough tier)
        if(f->name.rfind("screws_2d_mesh", 0) == 0)
        {
          std::string ctxt, cname = f->name.find("smaller") != std::string::npos ? "screws_2d_chart_bezier_24_28_smaller.xml" : "screws_2d_chart_bezier_24_28.xml";
          if(!vf::read_file(mesh_dir() + cname, ctxt)) throw vf::Discard{"cannot read " + cname};
          d.set("companion", cname); parse_texts<M>({ctxt, txt}, x);
        }
        else
        {
          // scalexa_gendie_simple.xml links its parts to a chart 'surface' that no shipped file defines (external CGAL surface):
          // a shipped file that needs a companion which is not there cannot serve as a source (second alarm of the thorough tier)
          try { parse_text<M>(txt, x); }
          catch(const MeshNodeLinkerError& e) { if(std::string(e.what()).find("not found for meshpart") != std::string::npos) throw vf::Discard{"shipped file needs a chart file that is not shipped: " + f->name}; throw; }
        }
        int ref = (src == 2 && f->size < 6000 && !o.small) ? t.pick({3, 1}) : 0; d.set("refine", ref);
        for(int r = 0; r < ref; ++r) { auto fine = x.node->refine_unique(AdaptMode::chart); x.node = std::move(fine); c.label("refined"); }
      }
    }
    if(src == 3) { d.set("source", "no-mesh"); c.label("src:no-mesh"); x.node = RootMeshNode<M>::make_unique(nullptr, x.atlas.get()); }
    if(mesh)
    {
      // coordinates: keep / affine / replaced by generated reals (file I/O does not care about geometric validity)
      auto& vs = mesh->get_vertex_set(); Index nv = vs.get_num_vertices();
      int cm = t.pick({2, 2, 3}); d.set("coords", cm == 0 ? "keep" : (cm == 1 ? "affine" : "generated"));
      if(cm == 1) { double s = t.real_nz(vcls), sh = gen_real(t, vcls); for(Index i = 0; i < nv; ++i) for(int k = 0; k < dim; ++k) vs[i][k] = s * vs[i][k] + sh * double(k + 1); }
      if(cm == 2) { double b0 = gen_real(t, 3), st = gen_real(t, 2); for(Index i = 0; i < nv; ++i) for(int k = 0; k < dim; ++k) vs[i][k] = (nv <= 80) ? gen_real(t, vcls) : b0 + st * double(i * 3 + Index(k)); }
      x.node = RootMeshNode<M>::make_unique(std::move(mesh), x.atlas.get());
    }
    // (generated meshes are not refined here: refining a mesh that was rebuilt by deduct_topology_from_top() is C10's subject -
    //  a probe showed the refined 2-tetra complex to be inconsistent, reported to the C10 worker - and the unit-cube factory
    //  already goes through the refinery for level >= 1)
    const M* m = x.node->get_mesh();
    // charts
    int nch = from_file ? t.pick({3, 1}) : (m ? t.pick({2, 2, 1, 1}) : 1 + t.pick({2, 2, 1}));
    J jc = J::arr(); std::vector<std::string> chart_names;
    for(int i = 0; i < nch; ++i)
    {
      J cd = J::obj(); auto ch = gen_chart<M>(t, c, vcls, cd, o.small); std::string nm = "g" + gen_name(t, i, false); cd.set("name", nm);
      if(x.atlas->add_mesh_chart(nm, std::move(ch))) { chart_names.push_back(nm); jc.add(cd); }
    }
    d.set("gen_charts", jc);
    // mesh parts
    J jp = J::arr();
    if(m)
    {
      int np = from_file ? t.pick({3, 1}) : t.pick({1, 3, 2, 1});
      for(int i = 0; i < np; ++i)
      {
        J pd = J::obj(); auto part = gen_part<M>(t, c, *m, vcls, pd);
        std::string bn = gen_name(t, i, true);   // internal names ('_' first) are skipped by the writer unless asked for
        std::string nm = (i == 0 && t.flag(1, 12)) ? std::string() : (bn[0] == '_' ? "_g" + bn.substr(1) : "g" + bn);
        std::string cn; if(!chart_names.empty() && t.flag(1, 2)) cn = chart_names[(size_t)t.range(0, (int)chart_names.size() - 1)];
        pd.set("name", nm); pd.set("chart", cn);
        if(nm.empty()) c.label("name:empty"); if(!nm.empty() && nm[0] == '_') c.label("name:internal"); if(!cn.empty()) c.label("part:with-chart");
        if(x.node->add_mesh_part(nm, std::move(part), cn, cn.empty() ? nullptr : x.atlas->find_mesh_chart(cn)) != nullptr) jp.add(pd);
      }
    }
    d.set("gen_parts", jp);
    // partitions
    int npt = t.pick({3, 2, 1}); J jpt = J::arr();
    for(int i = 0; i < npt; ++i) { J pd = J::obj(); Index ne = m ? m->get_num_entities(dim) : (Index)t.range(1, 20); x.ps.add_partition(gen_partition(t, c, ne, i, pd)); jpt.add(pd); }
    d.set("gen_partitions", jpt);
    o.skip_internal = !t.flag(1, 2); o.indent = !t.flag(1, 4); o.streams = t.flag(1, 5) ? 2 : 1;
    d.set("skip_internal", o.skip_internal); d.set("indent", o.indent); d.set("streams", o.streams);
    if(!o.indent) c.label("writer:no-indent"); if(o.streams == 2) c.label("reader:two-streams"); if(!o.skip_internal) c.label("writer:with-internal");
  }

  template<typename M> inline std::string summary_labels(Ctx& c, const Bundle<M>& x)
  {
    const M* m = x.node ? x.node->get_mesh() : nullptr;
    if(m) { Index nc = m->get_num_entities(M::shape_dim); c.label(nc <= 2 ? "cells:1-2" : (nc <= 64 ? "cells:3-64" : "cells:65+")); }
    size_t np = x.node ? x.node->get_mesh_part_names().size() : 0; c.label(np == 0 ? "parts:0" : (np <= 2 ? "parts:1-2" : "parts:3+"));
    size_t nc = x.atlas->get_mesh_chart_map().size(); c.label(nc == 0 ? "charts:0" : "charts:1+");
    c.label(x.ps.get_partitions().empty() ? "partitions:0" : "partitions:1+");
    return "";
  }

  /// property (A): w1 = write(x); y = parse(w1); model(x) == model(y) to printed precision; write(y) == w1 byte for byte
  template<typename M> inline void rt_case(Tape& t, Ctx& c)
  {
    Bundle<M> x; J d = J::obj(); CaseOpts o;
    gen_bundle<M>(t, c, x, d, o);
    summary_labels<M>(c, x);
    J mx = bundle_to_J<M>(x, o.skip_internal);
    { char b[20]; snprintf(b, sizeof b, "%016llx", (unsigned long long)vf::fnv64(mx.str())); d.set("model_fnv", std::string(b)); }
    const M* m = x.node->get_mesh();
    c.desc = d; c.op = "roundtrip";
    // non-trivial: there is something to get wrong - a root mesh with at least one cell, or at least one chart/partition
    c.nontrivial = (m && m->get_num_entities(M::shape_dim) >= 1) || !x.atlas->get_mesh_chart_map().empty() || !x.ps.get_partitions().empty();
    c.announce();
    std::string w1 = write_bundle<M>(x, o.skip_internal, o.indent);
    if(const char* dd = getenv("C11_DUMP_DIR")) { char b[64]; snprintf(b, sizeof b, "/%s-%016llx.xml", ShapeInfo<M>::tag(), (unsigned long long)vf::fnv64(w1)); if(w1.size() < 4096) vf::write_file(std::string(dd) + b, w1); }
    Bundle<M> y;
    try
    {
      if(o.streams == 1) parse_text<M>(w1, y);
      else
      {
        // the same content as two streams: charts first, then mesh/parts/partitions (the way the shipped screws_* files are split)
        std::ostringstream s1, s2;
        { MeshFileWriter wr(s1, o.indent); wr.write((const RootMeshNode<M>*)nullptr, x.atlas.get(), (const PartitionSet*)nullptr, o.skip_internal); }
        { MeshFileWriter wr(s2, o.indent); wr.write(x.node.get(), (const MeshAtlas<M>*)nullptr, &x.ps, o.skip_internal); }
        parse_texts<M>({s1.str(), s2.str()}, y);
      }
    }
    catch(const std::exception& e) { VF_FAIL("reject-own-output:" << typeid(e).name() << ":" << e.what()); }
    std::string v = validate_bundle<M>(y);
    VF_CHECK(v.empty(), "parsed bundle invalid: " << v);
    J my = bundle_to_J<M>(y, o.skip_internal);
    std::string why;
    VF_CHECK(jcmp(mx, my, "", why), "structure differs after write->parse at " << why);
    std::string w2 = write_bundle<M>(y, o.skip_internal, o.indent);
    if(w1 != w2)
    {
      size_t p = 0; while(p < w1.size() && p < w2.size() && w1[p] == w2[p]) ++p;
      size_t b = w1.rfind('\n', p); b = (b == std::string::npos) ? 0 : b + 1;
      VF_FAIL("mismatch:second write differs at byte " << p << ": '" << w1.substr(b, std::min<size_t>(w1.find('\n', p) - b, 120)) << "' vs '" << w2.substr(b, std::min<size_t>(w2.find('\n', p) - b, 120)) << "'");
    }
  }

  // ------------------------------------------------------------------------------------------------------------
  // fault property: a valid file with one fault injected must be rejected with a documented exception
  // ------------------------------------------------------------------------------------------------------------
  struct Fault { std::string kind, detail, text; bool ok = false; };

  inline std::string replace_range(const std::string& s, size_t b, size_t e, const std::string& r) { return s.substr(0, b) + r + s.substr(e); }
  /// replace attribute value (whole value string) in the raw line l of text
  inline bool set_attr(std::string& text, const SLine& l, const std::string& key, const std::string& val)
  {
    std::string raw = text.substr(l.beg, l.end - l.beg); std::string pat = " " + key + "=\""; size_t p = raw.find(pat); if(p == std::string::npos) return false;
    size_t q = raw.find('"', p + pat.size()); if(q == std::string::npos) return false;
    text = replace_range(text, l.beg + p + pat.size(), l.beg + q, val); return true;
  }
  inline std::string join(const std::vector<std::string>& v) { std::string r; for(size_t i = 0; i < v.size(); ++i) { if(i) r += ' '; r += v[i]; } return r; }
  inline std::string drop_lines(const std::string& text, const Sketch& sk, size_t a, size_t b) { size_t e = sk.lines[b].end; if(e < text.size()) ++e; return text.substr(0, sk.lines[a].beg) + text.substr(e); }

  /// index of the terminator line that closes the open markup at line i
  inline size_t close_of(const Sketch& sk, size_t i) { for(size_t k = i + 1; k < sk.lines.size(); ++k) if(sk.lines[k].term && sk.lines[k].ctx.size() == sk.lines[i].ctx.size()) return k; return i; }

  template<typename M> inline Fault gen_fault(Tape& t, Ctx& c, const std::string& w, J& d)
  {
    constexpr int dim = M::shape_dim;
    Sketch sk = sketch(w); Fault f; f.text = w;
    auto pick_line = [&](std::function<bool(const SLine&)> pred) -> int
    {
      std::vector<int> cand; for(size_t i = 0; i < sk.lines.size(); ++i) if(pred(sk.lines[i])) cand.push_back((int)i);
      if(cand.empty()) return -1; return cand[(size_t)t.range(0, (int)cand.size() - 1)];
    };
    auto is_open = [&](const SLine& l, const char* n) { return l.markup && !l.term && l.name == n; };
    auto content_in = [&](const SLine& l, const char* a, const char* b) { return !l.markup && !l.comment && sk.in(l, a, b); };
    auto pm1 = [&](unsigned long long v, bool& plus) -> std::string { plus = (v == 0) || t.flag(1, 2); return plus ? std::to_string(v + 1) : std::to_string(v - 1); };
    // the fault families; a family that has no site in this file falls through to truncation
    int fam = t.pick({3, 3, 6, 3, 4, 4, 4, 3});
    static const char* famn[] = { "trunc-line", "trunc-byte", "count", "dimension", "index", "tag", "syntax", "line-length" };
    for(int attempt = 0; attempt < 2 && !f.ok; ++attempt)
    {
      if(attempt == 1) fam = t.pick({1, 1});
      f.kind = famn[fam];
      switch(fam)
      {
      case 0: {   // cut after k complete lines (k = 0: empty file)
        int k = t.range(0, (int)sk.lines.size() - 1); f.text = k == 0 ? std::string() : w.substr(0, sk.lines[(size_t)k - 1].end + 1); f.detail = "keep " + std::to_string(k) + " of " + std::to_string(sk.lines.size()) + " lines"; f.ok = true; break; }
      case 1: {   // cut at an arbitrary byte strictly before the final '>'
        size_t last = w.find_last_of('>'); int cut = t.range(0, (int)last); f.text = w.substr(0, (size_t)cut); f.detail = "cut at byte " + std::to_string(cut) + " of " + std::to_string(w.size()); f.ok = true; break; }
      case 2: {   // declared counts +-1
        int sub = t.pick({3, 3, 2, 2, 2, 2, 2, 2});
        if(sub == 0) { int i = pick_line([&](const SLine& l) { return is_open(l, "Mesh") && l.ctx.size() == 1; }); if(i < 0) break;
          auto tk = split_ws(sk.lines[(size_t)i].attrs["size"]); int k = t.range(0, (int)tk.size() - 1); unsigned long long v = 0; parse_index(tk[(size_t)k], v); bool pl; tk[(size_t)k] = pm1(v, pl);
          f.ok = set_attr(f.text, sk.lines[(size_t)i], "size", join(tk)); f.kind = "count:mesh-size"; f.detail = "entry " + std::to_string(k) + (pl ? " +1" : " -1"); }
        else if(sub == 1) { int i = pick_line([&](const SLine& l) { return is_open(l, "MeshPart") && !split_ws(l.attrs.at("size")).empty(); }); if(i < 0) break;
          auto tk = split_ws(sk.lines[(size_t)i].attrs["size"]); int k = t.range(0, (int)tk.size() - 1); unsigned long long v = 0; parse_index(tk[(size_t)k], v); bool pl; tk[(size_t)k] = pm1(v, pl);
          f.ok = set_attr(f.text, sk.lines[(size_t)i], "size", join(tk)); f.kind = "count:part-size"; f.detail = "entry " + std::to_string(k) + (pl ? " +1" : " -1"); }
        else if(sub == 2) {   // attribute dimension (only visible when the part has vertices)
          int i = pick_line([&](const SLine& l) { return is_open(l, "Attribute") && !l.closed && !sk.lines[(size_t)l.ctx.back()].attrs["size"].empty() && split_ws(sk.lines[(size_t)l.ctx.back()].attrs["size"])[0] != "0"; }); if(i < 0) break;
          unsigned long long v = 0; parse_index(sk.lines[(size_t)i].attrs["dim"], v); bool pl; std::string nv = pm1(v, pl); f.ok = set_attr(f.text, sk.lines[(size_t)i], "dim", nv); f.kind = "count:attribute-dim"; f.detail = pl ? "+1" : "-1"; }
        else if(sub == 3) {   // partition: rank count -1 (last patch out of range) or +1 (a declared patch is missing)
          int i = pick_line([&](const SLine& l) { return is_open(l, "Partition"); }); if(i < 0) break;
          auto tk = split_ws(sk.lines[(size_t)i].attrs["size"]); unsigned long long v = 0; parse_index(tk[0], v); bool pl = t.flag(1, 2); if(c.excl("c11-partition-missing-patch")) pl = false; tk[0] = std::to_string(pl ? v + 1 : v - 1);
          f.ok = set_attr(f.text, sk.lines[(size_t)i], "size", join(tk)); f.kind = pl ? "count:partition-ranks+1" : "count:partition-ranks-1"; }
        else if(sub == 4) { int i = pick_line([&](const SLine& l) { return is_open(l, "Patch"); }); if(i < 0) break;
          unsigned long long v = 0; parse_index(sk.lines[(size_t)i].attrs["size"], v); bool pl; std::string nv = pm1(v, pl); f.ok = set_attr(f.text, sk.lines[(size_t)i], "size", nv); f.kind = "count:patch-size"; f.detail = pl ? "+1" : "-1"; }
        else if(sub == 5) { int i = pick_line([&](const SLine& l) { return is_open(l, "Bezier"); }); if(i < 0) break;
          unsigned long long v = 0; parse_index(sk.lines[(size_t)i].attrs["size"], v); bool pl; std::string nv = pm1(v, pl); f.ok = set_attr(f.text, sk.lines[(size_t)i], "size", nv); f.kind = "count:bezier-size"; f.detail = pl ? "+1" : "-1"; }
        else if(sub == 6) {   // bezier control point count of one line; 0 -> -1 is the class of finding c11-bezier-neg-ctrl
          int i = pick_line([&](const SLine& l) { return content_in(l, "Bezier", "Points"); }); if(i < 0) break;
          auto tk = split_ws(sk.lines[(size_t)i].txt); unsigned long long v = 0; parse_index(tk[0], v); bool pl = (v == 0 && c.excl("c11-bezier-neg-ctrl")) || t.flag(1, 2);
          tk[0] = pl ? std::to_string(v + 1) : std::to_string(v - 1);
          if(!pl && v == 0) tk.assign(1, "-1");   // a line holding nothing but a negative count: (size_t(-1)+1)*2+1 == 1 token, the length check passes
          f.text = replace_range(w, sk.lines[(size_t)i].beg, sk.lines[(size_t)i].end, join(tk)); f.ok = true; f.kind = (!pl && v == 0) ? "count:bezier-ctrl-negative" : "count:bezier-ctrl"; f.detail = pl ? "+1" : "-1"; }
        else { int i = pick_line([&](const SLine& l) { return is_open(l, "SurfaceMesh"); }); if(i < 0) break;
          const char* key = t.flag(1, 2) ? "verts" : "trias"; unsigned long long v = 0; parse_index(sk.lines[(size_t)i].attrs[key], v); bool pl; std::string nv = pm1(v, pl); f.ok = set_attr(f.text, sk.lines[(size_t)i], key, nv); f.kind = std::string("count:surfmesh-") + key; f.detail = pl ? "+1" : "-1"; }
        break; }
      case 3: {   // declared dimensions
        int sub = t.pick({3, 3, 2, 1});
        if(sub == 0) {   // topology dim of a block with content -> another value in 0..dim+1
          int i = pick_line([&](const SLine& l) { return is_open(l, "Topology") && !sk.lines[(size_t)(&l - &sk.lines[0]) + 1].markup; }); if(i < 0) break;
          unsigned long long v = 0; parse_index(sk.lines[(size_t)i].attrs["dim"], v); int nv = t.range(0, dim + 1); if((unsigned long long)nv == v) nv = (nv + 1) % (dim + 2);
          f.ok = set_attr(f.text, sk.lines[(size_t)i], "dim", std::to_string(nv)); f.kind = "dimension:topology"; f.detail = std::to_string(v) + " -> " + std::to_string(nv); }
        else if(sub == 1) {   // mapping dim of a block with content; dim+1 is the class of finding c11-mapping-dim
          int i = pick_line([&](const SLine& l) { return is_open(l, "Mapping") && !sk.lines[(size_t)(&l - &sk.lines[0]) + 1].markup; }); if(i < 0) break;
          unsigned long long v = 0; parse_index(sk.lines[(size_t)i].attrs["dim"], v); int hi = c.excl("c11-mapping-dim") ? dim : dim + 1; int nv = t.range(0, hi); if((unsigned long long)nv == v) nv = (nv + 1) % (hi + 1);
          if(nv == dim + 1 && t.flag(1, 2)) nv = dim + 2;
          f.ok = set_attr(f.text, sk.lines[(size_t)i], "dim", std::to_string(nv)); f.kind = nv == dim + 1 ? "dimension:mapping=shape_dim+1" : "dimension:mapping"; f.detail = std::to_string(v) + " -> " + std::to_string(nv); }
        else if(sub == 2) {   // mesh type string
          int i = pick_line([&](const SLine& l) { return is_open(l, "Mesh") && l.ctx.size() == 1; }); if(i < 0) break;
          std::string ty = sk.lines[(size_t)i].attrs["type"]; int q = t.range(0, 3);
          if(q == 0) ty[ty.size() - 1] = char('0' + (dim == 2 ? 3 : 2)); else if(q == 1) ty[ty.size() - 3] = char('0' + (dim == 2 ? 3 : 2));
          else if(q == 2) ty = (ty.find("hypercube") != std::string::npos) ? ("conformal:simplex" + ty.substr(ty.size() - 4)) : ("conformal:hypercube" + ty.substr(ty.size() - 4)); else ty = "structured" + ty.substr(9);
          f.ok = set_attr(f.text, sk.lines[(size_t)i], "type", ty); f.kind = "dimension:mesh-type"; f.detail = ty; }
        else { int i = pick_line([&](const SLine& l) { return is_open(l, "Bezier"); }); if(i < 0) break; f.ok = set_attr(f.text, sk.lines[(size_t)i], "dim", t.flag(1, 2) ? "3" : "1"); f.kind = "dimension:bezier"; }
        break; }
      case 4: {   // indices at / beyond their bound
        int sub = t.pick({4, 2, 2, 4, 2});
        auto bad = [&](unsigned long long bound) -> std::string { int q = t.pick({4, 1, 1, 1}); if(q == 0) return std::to_string(bound); if(q == 1) return std::to_string(bound + 7); if(q == 2) return "-1"; return "18446744073709551615"; };
        if(sub == 0) { int i = pick_line([&](const SLine& l) { return content_in(l, "Mesh", "Topology") && l.ctx.size() == 3; }); if(i < 0) break;
          unsigned long long nv = 0; parse_index(split_ws(sk.open_of(sk.lines[(size_t)i], 1).attrs.at("size"))[0], nv);
          auto tk = split_ws(sk.lines[(size_t)i].txt); int k = t.range(0, (int)tk.size() - 1); tk[(size_t)k] = bad(nv); f.text = replace_range(w, sk.lines[(size_t)i].beg, sk.lines[(size_t)i].end, join(tk)); f.ok = true; f.kind = "index:mesh-topology"; f.detail = tk[(size_t)k] + " (bound " + std::to_string(nv) + ")"; }
        else if(sub == 1) { int i = pick_line([&](const SLine& l) { return content_in(l, "MeshPart", "Topology"); }); if(i < 0) break;
          unsigned long long nv = 0; parse_index(split_ws(sk.open_of(sk.lines[(size_t)i], 1).attrs.at("size"))[0], nv);
          auto tk = split_ws(sk.lines[(size_t)i].txt); int k = t.range(0, (int)tk.size() - 1); tk[(size_t)k] = bad(nv); f.text = replace_range(w, sk.lines[(size_t)i].beg, sk.lines[(size_t)i].end, join(tk)); f.ok = true; f.kind = "index:part-topology"; f.detail = tk[(size_t)k] + " (bound " + std::to_string(nv) + ")"; }
        else if(sub == 2) { if(c.excl("c11-surfmesh-index")) break; int i = pick_line([&](const SLine& l) { return content_in(l, "SurfaceMesh", "Triangles"); }); if(i < 0) break;
          unsigned long long nv = 0; parse_index(sk.open_of(sk.lines[(size_t)i], 1).attrs.at("verts"), nv);
          auto tk = split_ws(sk.lines[(size_t)i].txt); int k = t.range(0, 2); tk[(size_t)k] = bad(nv); f.text = replace_range(w, sk.lines[(size_t)i].beg, sk.lines[(size_t)i].end, join(tk)); f.ok = true; f.kind = "index:surfmesh-triangle"; f.detail = tk[(size_t)k] + " (verts " + std::to_string(nv) + ")"; }
        else if(sub == 3) {   // vertex mapping of a mesh part against the vertex count of the root mesh in the same file
          if(c.excl("c11-mapping-index")) break;
          int mi = pick_line([&](const SLine& l) { return is_open(l, "Mesh") && l.ctx.size() == 1; }); if(mi < 0) break;
          // any mapping dimension; parts with an internal name ('_' first) are preferred when the file has one (they are
          // ordinary mesh parts for the reader, only assemblers skip them)
          std::vector<int> all, internal;
          for(size_t q = 0; q < sk.lines.size(); ++q) if(content_in(sk.lines[q], "MeshPart", "Mapping")) { all.push_back((int)q); auto it = sk.open_of(sk.lines[q], 1).attrs.find("name"); if(it != sk.open_of(sk.lines[q], 1).attrs.end() && !it->second.empty() && it->second[0] == '_') internal.push_back((int)q); }
          if(all.empty()) break;
          const std::vector<int>& pool = (!internal.empty() && t.flag(3, 4)) ? internal : all; int i = pool[(size_t)t.range(0, (int)pool.size() - 1)];
          const int mdim = std::atoi(sk.open_of(sk.lines[(size_t)i]).attrs.at("dim").c_str()); auto szs = split_ws(sk.lines[(size_t)mi].attrs["size"]); if(mdim < 0 || mdim >= (int)szs.size()) break;
          if(&pool == &internal) c.label("fault-site:internal-part");
          unsigned long long nv = 0; parse_index(szs[(size_t)mdim], nv);
          std::string b = bad(nv); f.text = replace_range(w, sk.lines[(size_t)i].beg, sk.lines[(size_t)i].end, b); f.ok = true; f.kind = "index:part-vertex-mapping"; f.detail = b + " (dim " + std::to_string(mdim) + ", parent entities " + std::to_string(nv) + ")"; }
        else { int i = pick_line([&](const SLine& l) { return content_in(l, "Partition", "Patch"); }); if(i < 0) break;
          unsigned long long ne = 0; parse_index(split_ws(sk.open_of(sk.lines[(size_t)i], 1).attrs.at("size"))[1], ne);
          std::string b = bad(ne); f.text = replace_range(w, sk.lines[(size_t)i].beg, sk.lines[(size_t)i].end, b); f.ok = true; f.kind = "index:patch-element"; f.detail = b + " (elements " + std::to_string(ne) + ")"; }
        break; }
      case 5: {   // opening / closing tags
        int sub = t.pick({3, 3, 2, 2, 2, 2});
        if(sub == 0) { int i = pick_line([&](const SLine& l) { return l.term; }); if(i < 0) break; f.text = drop_lines(w, sk, (size_t)i, (size_t)i); f.ok = true; f.kind = "tag:drop-close"; f.detail = sk.lines[(size_t)i].txt; }
        else if(sub == 1) { int i = pick_line([&](const SLine& l) { return l.term && !l.ctx.empty(); }); if(i < 0) break;   // the reader stops at the root terminator: text behind it is never looked at (domain fact), so the root terminator is not duplicated
          f.text = w.substr(0, sk.lines[(size_t)i].end) + "\n" + w.substr(sk.lines[(size_t)i].beg); f.ok = true; f.kind = "tag:dup-close"; f.detail = sk.lines[(size_t)i].txt; }
        else if(sub == 2) { int i = pick_line([&](const SLine& l) { return l.markup && !l.term && !l.closed; }); if(i < 0) break; f.text = drop_lines(w, sk, (size_t)i, (size_t)i); f.ok = true; f.kind = "tag:drop-open"; f.detail = sk.lines[(size_t)i].name; }
        else if(sub == 3) {   // duplicate a whole Chart block: same name twice (class of finding c11-dup-chart)
          if(c.excl("c11-dup-chart")) break; int i = pick_line([&](const SLine& l) { return is_open(l, "Chart") && l.ctx.size() == 1; }); if(i < 0) break; size_t e = close_of(sk, (size_t)i);
          std::string blk = w.substr(sk.lines[(size_t)i].beg, sk.lines[e].end + 1 - sk.lines[(size_t)i].beg); f.text = w.substr(0, sk.lines[(size_t)i].beg) + blk + w.substr(sk.lines[(size_t)i].beg); f.ok = true; f.kind = "tag:duplicate-chart"; f.detail = sk.lines[(size_t)i].attrs["name"]; }
        else if(sub == 4) { int i = pick_line([&](const SLine& l) { return (is_open(l, "MeshPart") || is_open(l, "Mesh")) && l.ctx.size() == 1; }); if(i < 0) break; size_t e = close_of(sk, (size_t)i);
          std::string blk = w.substr(sk.lines[(size_t)i].beg, sk.lines[e].end + 1 - sk.lines[(size_t)i].beg); f.text = w.substr(0, sk.lines[(size_t)i].beg) + blk + w.substr(sk.lines[(size_t)i].beg); f.ok = true; f.kind = "tag:duplicate-" + sk.lines[(size_t)i].name; }
        else { int i = pick_line([&](const SLine& l) { return l.markup && !l.term && !l.ctx.empty() && (l.name == "Vertices" || l.name == "Topology" || l.name == "Mapping" || l.name == "Points"); }); if(i < 0) break; size_t e = close_of(sk, (size_t)i);
          if(sk.lines[(size_t)i].name == "Mapping" && sk.lines[(size_t)i + 1].markup) break;
          if(sk.lines[(size_t)i].name == "Points" && c.excl("c11-bezier-points-count")) break;   // class of that finding: Bezier without its Points block
          f.text = drop_lines(w, sk, (size_t)i, e); f.ok = true; f.kind = "tag:drop-block"; f.detail = sk.lines[(size_t)i].name; }
        break; }
      case 6: {   // syntax of a markup line
        int i = pick_line([&](const SLine& l) { return l.markup; }); if(i < 0) break; const SLine& l = sk.lines[(size_t)i]; std::string raw = w.substr(l.beg, l.end - l.beg);
        int sub = t.pick({2, 2, 2, 2, 2, 2, 2});
        if(sub == 0) { raw.erase(raw.find_last_of('>'), 1); f.kind = "syntax:no-gt"; }
        else if(sub == 1) { raw.erase(raw.find('<'), 1); f.kind = "syntax:no-lt"; }
        else if(sub == 2) { size_t p = raw.find('"'); if(p == std::string::npos) break; std::vector<size_t> q; for(size_t k = 0; k < raw.size(); ++k) if(raw[k] == '"') q.push_back(k); raw.erase(q[(size_t)t.range(0, (int)q.size() - 1)], 1); f.kind = "syntax:drop-quote"; }
        else if(sub == 3) { size_t p = raw.find('='); if(p == std::string::npos) break; raw[p] = ' '; f.kind = "syntax:no-equals"; }
        else if(sub == 4) { if(l.term || l.attrs.empty()) break; auto it = l.attrs.begin(); std::advance(it, t.range(0, (int)l.attrs.size() - 1)); std::string pat = " " + it->first + "=\""; size_t p = raw.find(pat); size_t q = raw.find('"', p + pat.size());
          // optional attributes may be dropped legally: only mandatory ones are removed
          static const std::set<std::string> optional = { "chart", "name@Partition", "priority", "level", "domain", "type@Bezier", "orientation", "origin", "offset", "angles", "mesh" };
          if(optional.count(it->first) || optional.count(it->first + "@" + l.name)) break; raw.erase(p, q + 1 - p); f.kind = "syntax:drop-mandatory-attribute"; f.detail = l.name + "/" + it->first; }
        else if(sub == 5) { if(l.term) break; size_t p = raw.find_last_of(l.closed ? '/' : '>'); raw.insert(p, " bogus=\"1\""); f.kind = "syntax:unknown-attribute"; f.detail = l.name; }
        else { size_t p = raw.find(l.name); raw.insert(p + (l.name.size() > 1 ? 1 : 0), t.flag(1, 2) ? "?" : "x9"); f.kind = "syntax:bad-markup-name"; f.detail = l.name; }
        // <Info> and everything below it is handled by a DummyParser that accepts any attribute (documented free text block)
        if((f.kind == "syntax:unknown-attribute" || f.kind == "syntax:drop-mandatory-attribute") && (l.name == "Info" || std::any_of(l.ctx.begin(), l.ctx.end(), [&](int q) { return sk.lines[(size_t)q].name == "Info"; }))) break;
        f.text = replace_range(w, l.beg, l.end, raw); f.ok = true; break; }
      default: {   // content lines that are too short / too long / not numbers
        int i = pick_line([&](const SLine& l) { return !l.markup && !l.comment && !l.ctx.empty() && sk.open_of(l).name != "Info"; }); if(i < 0) break; const SLine& l = sk.lines[(size_t)i];
        auto tk = split_ws(l.txt); int sub = t.pick({3, 3, 2});
        if(sub == 0) { tk.pop_back(); f.kind = "line:short"; if(tk.empty()) { f.text = drop_lines(w, sk, (size_t)i, (size_t)i); f.ok = true; f.detail = "in " + sk.open_of(l).name; break; } }
        else if(sub == 1)
        {
          // tuple lines only: their length is fixed by a declared dimension.  Single-value lines (Mapping, Patch, Params) are read
          // with operator>> which ignores whatever follows the number ("7 7" reads as 7) - lax, but none of the violations the
          // property lists (false alarm fixed; noted in findings/C11.md as an observation)
          const std::string& cn = sk.open_of(l).name; if(!(cn == "Vertices" || cn == "Topology" || cn == "Attribute" || cn == "Points" || cn == "Triangles")) break;
          tk.push_back(tk.back()); f.kind = "line:long";
        }
        else { tk[(size_t)t.range(0, (int)tk.size() - 1)] = t.flag(1, 2) ? "abc" : "--5"; f.kind = "line:not-a-number"; }
        f.detail = "in " + sk.open_of(l).name; f.text = replace_range(w, l.beg, l.end, join(tk)); f.ok = true; break; }
      }
    }
    d.set("fault", f.kind); d.set("detail", f.detail);
    return f;
  }

  template<typename M> inline void fault_case(Tape& t, Ctx& c)
  {
    Bundle<M> x; J d = J::obj(); CaseOpts o; o.small = true;
    gen_bundle<M>(t, c, x, d, o);
    std::string w = write_bundle<M>(x, o.skip_internal, o.indent);
    // known finding c11-surfmesh-write: the writer forgets the line break behind </SurfaceMesh>; repaired here on the text so
    // that the SurfaceMesh fault classes stay reachable while that finding is switched off
    if(c.excl("c11-surfmesh-write")) { size_t p = 0; while((p = w.find("</SurfaceMesh>", p)) != std::string::npos) { p += 14; if(p < w.size() && w[p] != '\n') w.insert(p, "\n"); } }
    // the base file must be valid (this is property (A), checked here without the structural comparison)
    { Bundle<M> y; try { parse_text<M>(w, y); } catch(const std::exception& e) { throw vf::Discard{std::string("base file rejected: ") + e.what()}; } }
    Fault f = gen_fault<M>(t, c, w, d);
    if(!f.ok) throw vf::Discard{"no fault site"};
    { char b[20]; snprintf(b, sizeof b, "%016llx", (unsigned long long)vf::fnv64(f.text)); d.set("text_fnv", std::string(b)); d.set("bytes", (long long)f.text.size()); }
    if(f.text.size() <= 1500) d.set("text", f.text);
    c.label("fault:" + f.kind); c.desc = d; c.op = "reject:" + f.kind.substr(0, f.kind.find(':'));
    c.nontrivial = true;   // every case is a valid file (>= root markup) with exactly one injected fault
    c.announce();
    Bundle<M> y; bool rejected = false; std::string how;
    try { parse_text<M>(f.text, y); }
    catch(const FEAT::Exception& e) { rejected = true; how = e.what(); }     // documented: Xml::Error family and other FEAT::Exception
    catch(const std::bad_alloc&) { rejected = true; how = "bad_alloc"; }      // absurd declared size: counted as rejection (DESIGN C11)
    catch(const std::length_error&) { rejected = true; how = "length_error"; }
    catch(const std::exception& e) { VF_FAIL("undocumented-exception:" << typeid(e).name() << ":" << e.what() << " [" << f.kind << " " << f.detail << "]"); }
    VF_CHECK(rejected, "accepted:" << f.kind << " " << f.detail);
  }

  typedef void (*CaseFn)(Tape&, Ctx&);
  // per shape entry points (one TU each)
  void rt_q2(Tape&, Ctx&); void rt_h3(Tape&, Ctx&); void rt_s2(Tape&, Ctx&); void rt_s3(Tape&, Ctx&);
  void fault_q2(Tape&, Ctx&); void fault_h3(Tape&, Ctx&); void fault_s2(Tape&, Ctx&); void fault_s3(Tape&, Ctx&);
} // namespace c11
