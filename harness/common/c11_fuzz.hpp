// c11_fuzz.hpp - C11 (B): libFuzzer side.  One process fuzzes one target (C11_FUZZ_TARGET = q2|h3|s2|s3|xml|ini).
// Findings are identified by a key string; keys that belong to an excluded known-finding switch (C11_EXCLUDE) are
// counted and swallowed so that the campaign continues behind them, inputs whose class would kill the process
// (assertion abort, memory error) are recognised on the text and skipped.  Everything else ends the process with
// "C11-FINDING: <key>" on stderr + abort(), which makes libFuzzer store the input as crash-*.
#pragma once
#include "c11_mesh.hpp"

namespace c11
{
  struct FuzzStats
  {
    unsigned long long execs = 0, parsed = 0, nontrivial = 0;
    std::map<std::string, unsigned long long> classes, excluded;
    std::set<unsigned long long> hashes;
    std::string path; std::set<std::string> excl; std::string target;
    void dump() const
    {
      if(path.empty()) return;
      J j = J::obj(); j.set("execs", execs); j.set("parsed", parsed); j.set("nontrivial", nontrivial); j.set("distinct_nontrivial", (unsigned long long)hashes.size());
      J c = J::obj(); for(auto& kv : classes) c.set(kv.first, kv.second); j.set("classes", c);
      J e = J::obj(); for(auto& kv : excluded) e.set(kv.first, kv.second); j.set("excluded", e);
      J h = J::arr(); size_t n = 0; for(auto x : hashes) { if(++n > 20000) break; char b[20]; snprintf(b, sizeof b, "%016llx", x); h.add(std::string(b)); } j.set("nt_hashes", h);
      std::string tmp = path + ".tmp"; vf::write_file(tmp, j.str()); rename(tmp.c_str(), path.c_str());
    }
    bool is_excl(const std::string& sw) { if(excl.count(sw)) { excluded[sw]++; return true; } return false; }
    void nt(const std::string& text) { nontrivial++; hashes.insert(vf::fnv64(text)); }
  };
  inline FuzzStats& stats() { static FuzzStats s; return s; }

  [[noreturn]] inline void finding(const std::string& key)
  {
    fprintf(stderr, "\nC11-FINDING: %s\n", vf::sanitize_sym(key).c_str()); fflush(stderr);
    stats().dump();
    abort();
  }
  /// finding unless the key belongs to an excluded switch
  inline bool report(const std::string& key, const char* sw)
  {
    if(sw && stats().is_excl(sw)) return false;
    finding(key);
  }

  /// which known-finding switch (if any) covers this key
  inline const char* switch_of(const std::string& key)
  {
    if(key.find("exc:St12out_of_range@") == 0 && key.find("/Points:content") != std::string::npos) return "c11-bezier-neg-ctrl";
    if(key.find("exc:St12out_of_range@") == 0 && key.find("/MeshPart:<Mapping>") != std::string::npos) return "c11-mapping-dim";
    if(key.find("accepted-invalid:range:part") == 0 && key.find("vertex mapping index") != std::string::npos) return "c11-mapping-index";
    if(key.find("accepted-invalid:range:bezier") == 0) return "c11-bezier-points-count";
    if(key.find("accepted-invalid:range:surfmesh") == 0) return "c11-surfmesh-index";
    if(key.find("accepted-invalid:partition") == 0) return "c11-partition-missing-patch";
    return nullptr;
  }

  /// path of the sketch line the scanner was at when the stream position is `pos`
  inline std::string site_of(const Sketch& sk, std::streamoff pos, size_t* line_no = nullptr)
  {
    const SLine* l = nullptr; size_t n = 0;
    for(auto& x : sk.lines) { if(pos >= 0 && (std::streamoff)x.beg >= pos) break; l = &x; ++n; }
    if(line_no) *line_no = n;
    if(!l) return "<start>";
    std::string p; for(int i : l->ctx) p += "/" + sk.lines[(size_t)i].name;
    p += ":"; p += l->markup ? ("<" + std::string(l->term ? "/" : "") + l->name + ">") : "content";
    return p;
  }

  template<typename M> inline bool has_surfmesh(const Bundle<M>& b)
  {
    if constexpr(M::world_dim == 3) { for(const auto& kv : b.atlas->get_mesh_chart_map()) if(dynamic_cast<const Atlas::SurfaceMesh<M>*>(kv.second.get())) return true; }
    return false;
  }

  template<typename M> inline void fuzz_mesh(const uint8_t* data, size_t size)
  {
    FuzzStats& st = stats();
    std::string text((const char*)data, size);
    Sketch sk = sketch(text);
    // classes of known findings that end the process (assertion abort / memory error): skipped when switched off
    if(st.excl.count("c11-dup-chart") && cls_dup_chart(sk)) { st.excluded["c11-dup-chart"]++; return; }
    if(st.excl.count("c11-surfmesh-index") && cls_surfmesh_index(sk)) { st.excluded["c11-surfmesh-index"]++; return; }
    if(st.excl.count("c11-surfmesh-nonmanifold") && cls_surfmesh_nonmanifold(sk)) { st.excluded["c11-surfmesh-nonmanifold"]++; return; }
    if(st.excl.count("c11-parent-unmapped-vertex") && cls_parent_unmapped(sk)) { st.excluded["c11-parent-unmapped-vertex"]++; return; }
    if(st.excl.count("c11-mapping-index") && cls_mapping_index(sk)) { st.excluded["c11-mapping-index"]++; return; }
    Bundle<M> y; std::istringstream iss(text);
    auto rejected = [&](const char* cls) { st.classes[cls]++; iss.clear(); size_t ln = 0; site_of(sk, (std::streamoff)iss.tellg(), &ln); if(ln >= 3) st.nt(text); };
    try { MeshFileReader rd(iss); y.node = rd.parse<M>(*y.atlas, &y.ps); }
    catch(const Xml::SyntaxError&) { rejected("rejected:syntax"); return; }
    catch(const Xml::GrammarError&) { rejected("rejected:grammar"); return; }
    catch(const Xml::ContentError&) { rejected("rejected:content"); return; }
    catch(const FEAT::Exception&) { rejected("rejected:linker/other"); return; }
    catch(const std::bad_alloc&) { st.classes["bad_alloc"]++; return; }
    catch(const std::length_error&) { st.classes["length_error"]++; return; }
    catch(const std::exception& e)
    {
      iss.clear(); std::string key = std::string("exc:") + typeid(e).name() + "@" + site_of(sk, (std::streamoff)iss.tellg());
      st.classes["undocumented-exception"]++;
      report(key + " what=" + e.what(), switch_of(key)); return;
    }
    st.parsed++; st.classes["parsed"]++; st.nt(text);
    const M* m = y.node->get_mesh();
    if(m) st.classes["parsed:mesh"]++; if(!y.node->get_mesh_part_names().empty()) st.classes["parsed:parts"]++;
    if(!y.atlas->get_mesh_chart_map().empty()) st.classes["parsed:charts"]++; if(!y.ps.get_partitions().empty()) st.classes["parsed:partitions"]++;
    std::string v = validate_bundle<M>(y);
    if(v.rfind("range:", 0) == 0) { std::string key = "accepted-invalid:" + v; st.classes["accepted-invalid"]++; report(key, switch_of(key)); return; }
    if(cls_partition_missing_patch(sk)) { std::string key = "accepted-invalid:partition declares more ranks than it has Patch blocks"; st.classes["accepted-invalid"]++; report(key, switch_of(key)); return; }
    if(!v.empty()) { st.classes["parsed:weird"]++; return; }   // objects the property does not speak about: no round trip demanded
    if(has_surfmesh<M>(y) && st.is_excl("c11-surfmesh-write")) return;
    // round trip of a valid parsed bundle
    std::string w1 = write_bundle<M>(y, false, true);
    Bundle<M> y2;
    try { parse_text<M>(w1, y2); }
    catch(const std::exception& e) { finding(std::string("roundtrip:reject-own-output:") + typeid(e).name() + ":" + e.what()); }
    std::string why; J m1 = bundle_to_J<M>(y, false), m2 = bundle_to_J<M>(y2, false);
    if(!jcmp(m1, m2, "", why)) finding("roundtrip:structure:" + why);
    std::string w2 = write_bundle<M>(y2, false, true);
    if(w1 != w2) { size_t p = 0; while(p < w1.size() && p < w2.size() && w1[p] == w2[p]) ++p; size_t b = w1.rfind('\n', p); b = (b == std::string::npos) ? 0 : b + 1; finding("roundtrip:second-write:'" + w1.substr(b, std::min<size_t>(w1.find('\n', p) - b, 100)) + "' vs '" + w2.substr(b, std::min<size_t>(w2.find('\n', p) - b, 100)) + "'"); }
    st.classes["roundtrip-ok"]++;
  }

  void fuzz_q2(const uint8_t*, size_t); void fuzz_h3(const uint8_t*, size_t); void fuzz_s2(const uint8_t*, size_t); void fuzz_s3(const uint8_t*, size_t);
} // namespace c11
