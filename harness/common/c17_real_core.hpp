// c17_real_core.hpp - C17 target running the real feat3 assembly jobs (basic_assembly_jobs.hpp,
// function_integral_jobs.hpp) threaded, wrapped in PJob<>, against the single-threaded result
//
// case = (2D quad mesh class + sizes + renumbering + jitter + mesh permutation, cell subset, strategy, max workers,
//         job kind, cubature, alpha, 1..2 assemble() calls of the same job, schedule per call)
// oracles: completes / no abort; exactly-once + protocol + no overlapping scatter of adjacent cells (PJob logs);
//   matrix / vector kinds: threaded and serial values both lie within
//        tol_k = 8 (n_k + 2) u S_k + 16 min_normal     of the long-double sum of the per-cell contributions,
//        S_k = sum of |per-cell contribution| to entry k, n_k = number of contributions (each cell is assembled alone
//        into a zeroed container to obtain its contribution; per-cell work is deterministic, so only the order of the
//        additions differs between runs); entries no selected cell touches must stay exactly 0;
//   integral kinds: threaded vs serial per field within 8 N u B, N = #cubature points in total + #workers + 2,
//        B = norm_l1 for the value, (vol + |.|_H1^2) for gradient entries, (vol + |.|_H2^2) for hessian entries
//        (Cauchy-Schwarz + AM-GM bound on the sum of absolute terms), the field itself for the non-negative sums,
//        Lmax exactly equal; the per-cell error vector of CellErrorFunctionIntegralJob exactly equal.
#pragma once
#include "c17_common.hpp"
#include <kernel/space/lagrange1/element.hpp>
#include <kernel/space/lagrange2/element.hpp>
#include <kernel/assembly/symbolic_assembler.hpp>
#include <kernel/assembly/common_operators.hpp>
#include <kernel/assembly/common_functionals.hpp>
#include <kernel/assembly/domain_assembler_helpers.hpp>
#include <kernel/analytic/common.hpp>
#include <kernel/lafem/sparse_matrix_csr.hpp>
#include <kernel/lafem/dense_vector.hpp>
#include <kernel/lafem/dense_vector_blocked.hpp>

namespace c17
{
  typedef Shape::Hypercube<2> RShape;
  typedef Geometry::ConformalMesh<RShape> RMesh;
  typedef Trafo::Standard::Mapping<RMesh> RTrafo;
  typedef Space::Lagrange1::Element<RTrafo> RQ1;
  typedef Space::Lagrange2::Element<RTrafo> RQ2;
  typedef LAFEM::SparseMatrixCSR<double, Index> RMat;
  typedef LAFEM::DenseVector<double, Index> RVec;
  typedef Analytic::Common::SineBubbleFunction<2> RFunc;

  struct RealOpts { int max_cells = 144; int wd_ms = 5000; };

  struct REnv
  {
    Ctx& c; const MeshSpec& ms; RMesh& mesh; RTrafo& trafo; RQ1& q1; RQ2& q2; const Subset& sub; const Adj& adj;
    DA<RTrafo>& da; std::size_t nw; int reps; std::vector<Sched> scheds; String cub; int npts; double alpha; int wd_ms; int blocks;
    RFunc func; RVec v1, v2;
  };

  template<typename Job_> void assemble_threaded(REnv& e, Job_& job, int rep)
  {
    Shared sh; sh.sched = e.scheds[std::size_t(rep)];
    PJob<Job_> pj(job, sh);
    { Watchdog wd(e.c, e.wd_ms); e.da.assemble(pj); }
    std::string tag = "call" + std::to_string(rep);
    check_logs(sh, e.sub, e.adj, e.ms.nc(), Job_::Task::need_scatter, Job_::Task::need_combine, e.nw, tag.c_str());
#if C17_TSAN
    VF_CHECK(tsan_reports().load() == 0, tag << ": ThreadSanitizer reported " << tsan_first());
#endif
  }

  inline double eps_u() { return std::numeric_limits<double>::epsilon() / 2.0; }

  /// matrix / vector kinds. mkc() makes a zeroed container, mkj(container) the job, raw(container) -> (double*, count)
  template<typename MkC_, typename MkJ_, typename Raw_>
  void run_container_kind(REnv& e, MkC_ mkc, MkJ_ mkj, Raw_ raw)
  {
    auto ser = mkc(); auto one = mkc();
    {
      auto job = mkj(ser); DA<RTrafo> ds(e.trafo); apply_subset(ds, e.mesh, e.sub);
      for(int r = 0; r < e.reps; ++r) ds.assemble(job);
    }
    const std::size_t n = raw(one).second;
    VF_CHECK(raw(ser).second == n, "container sizes differ");
    std::vector<long double> ref(n, 0.0L), ab(n, 0.0L); std::vector<int> cnt(n, 0);
    {
      auto job = mkj(one);
      for(Index cell : e.sub.cells)
      {
        Assembly::DomainAssembler<RTrafo> d1(e.trafo); d1.add_element(cell); d1.compile(); d1.assemble(job);
        double* p = raw(one).first;
        for(std::size_t k = 0; k < n; ++k) if(p[k] != 0.0) { ref[k] += (long double)p[k]; ab[k] += std::fabs((long double)p[k]); cnt[k]++; p[k] = 0.0; }
      }
    }
    const long double tiny = 16.0L * std::numeric_limits<double>::min();
    {
      const double* ps = raw(ser).first;
      for(std::size_t k = 0; k < n; ++k)
      {
        long double rf = ref[k] * e.reps, tol = 8.0L * (cnt[k] * e.reps + 2) * eps_u() * ab[k] * e.reps + tiny;
        if(cnt[k] == 0) { VF_CHECK(ps[k] == 0.0, "serial entry " << k << " is touched by no selected cell but is " << ps[k]); continue; }
        VF_CHECK(std::fabs((long double)ps[k] - rf) <= tol, "serial entry " << k << " = " << ps[k] << " differs from the sum of its cell contributions " << (double)rf << " by more than tol " << (double)tol);
      }
    }
    auto attempt = [&]() -> std::string
    {
      try
      {
        auto thr = mkc();
        { auto job = mkj(thr); for(int r = 0; r < e.reps; ++r) assemble_threaded(e, job, r); }
        VF_CHECK(raw(thr).second == n, "container sizes differ");
        const double* ps = raw(ser).first; const double* pt = raw(thr).first;
        for(std::size_t k = 0; k < n; ++k)
        {
          long double rf = ref[k] * e.reps, tol = 8.0L * (cnt[k] * e.reps + 2) * eps_u() * ab[k] * e.reps + tiny;
          if(cnt[k] == 0) { VF_CHECK(pt[k] == 0.0, "entry " << k << " is touched by no selected cell but is " << pt[k] << " (threaded)"); continue; }
          VF_CHECK(std::fabs((long double)pt[k] - rf) <= tol, "threaded entry " << k << " = " << pt[k] << " differs from the sum of its " << cnt[k] << " cell contributions " << (double)rf << " by " << (double)std::fabs((long double)pt[k] - rf) << " > tol " << (double)tol << " (serial " << ps[k] << ")");
        }
      }
      catch(vf::Fail& f) { return f.sym; }
      return "";
    };
    confirm_in_child(attempt);
  }

  struct FieldCmp
  {
    double N, vol; const char* who;
    void chk(const char* f, double a, double b, double B) const
    {
      double tol = 8.0 * N * eps_u() * B + 16.0 * std::numeric_limits<double>::min();
      VF_CHECK(std::fabs(a - b) <= tol, who << ": field " << f << " threaded " << a << " vs serial " << b << " differ by " << std::fabs(a - b) << " > tol " << tol);
    }
  };

  template<typename Info_> void compare_info(REnv& e, const Info_& s, const Info_& t, const char* who)
  {
    FieldCmp f{ double(e.reps) * double(e.sub.cells.size()) * double(e.npts) + double(e.nw) + 2.0, 12.0 * e.blocks * e.reps, who };
    f.chk("value", t.value, s.value, std::max(s.norm_l1, t.norm_l1));
    for(int i = 0; i < 2; ++i) f.chk("grad", t.grad[i], s.grad[i], f.vol + std::max(s.norm_h1_sqr, t.norm_h1_sqr));
    for(int i = 0; i < 2; ++i) for(int j = 0; j < 2; ++j) f.chk("hess", t.hess[i][j], s.hess[i][j], f.vol + std::max(s.norm_h2_sqr, t.norm_h2_sqr));
    f.chk("norm_h0_sqr", t.norm_h0_sqr, s.norm_h0_sqr, std::max(s.norm_h0_sqr, t.norm_h0_sqr));
    f.chk("norm_h1_sqr", t.norm_h1_sqr, s.norm_h1_sqr, std::max(s.norm_h1_sqr, t.norm_h1_sqr));
    f.chk("norm_h2_sqr", t.norm_h2_sqr, s.norm_h2_sqr, std::max(s.norm_h2_sqr, t.norm_h2_sqr));
    f.chk("norm_l1", t.norm_l1, s.norm_l1, std::max(s.norm_l1, t.norm_l1));
    VF_CHECK(t.norm_lmax == s.norm_lmax, who << ": Lmax norm threaded " << t.norm_lmax << " vs serial " << s.norm_lmax << " (max is order independent)");
    VF_CHECK(t.max_der == s.max_der, who << ": max_der differs");
    if(!e.sub.cells.empty()) VF_CHECK(s.norm_h0_sqr > 0.0, who << ": serial integral is empty although cells were selected");
  }

  /// integral kinds: mkj() makes the job; result() of both runs compared field by field
  template<typename MkJ_> void run_integral_kind(REnv& e, MkJ_ mkj, const char* who)
  {
    auto js = mkj();
    { DA<RTrafo> ds(e.trafo); apply_subset(ds, e.mesh, e.sub); for(int r = 0; r < e.reps; ++r) ds.assemble(js); }
    auto attempt = [&]() -> std::string
    {
      try { auto jt = mkj(); for(int r = 0; r < e.reps; ++r) assemble_threaded(e, jt, r); compare_info(e, js.result(), jt.result(), who); }
      catch(vf::Fail& f) { return f.sym; }
      return "";
    };
    confirm_in_child(attempt);
  }

  static const char* const real_kinds[] = { "mat1-laplace-q1", "mat1-mass-q2", "mat2-q2xq1", "force-q1", "linfunc-q2", "int-analytic", "int-discrete-q1", "int-error-q2", "int-cellerror-q1", "int-discrete-blocked-q1" };

  inline void real_case(Tape& t, Ctx& c, const RealOpts& o)
  {
    MeshSpec ms = gen_mesh<RShape>(t, o.max_cells, true);
    uint32_t jit = t.flag() ? t.raw() : 0u; jitter2d(ms, jit); ms.desc.set("jitter", (long long)jit);
    int mesh_perm = choose_perm(t, ms);
    auto mesh = build_mesh<RShape>(ms);
    apply_perm(*mesh, ms, mesh_perm);
    Subset sub = gen_subset(t, ms);
    Cfg cfg = gen_cfg(t, Index(sub.cells.size()), true); cfg.mesh_perm = mesh_perm;
    int kind = t.pick({ 4, 2, 2, 2, 1, 3, 2, 2, 3, 3 });
    int reps = 1 + t.pick({ 3, 1 });
    std::vector<Sched> scheds; for(int r = 0; r < reps; ++r) scheds.push_back(gen_sched(t, ms.nc()));
    int cubdeg = 2 + t.pick({ 2, 1 });
    static const double alphas[] = { 1.0, -0.5, 2.25 }; double alpha = alphas[t.pick({ 2, 1, 1 })];

    auto resolve = [&]() { ThreadingStrategy s = cfg.strat; if(s == ThreadingStrategy::automatic) s = cfg.maxw <= 1 ? ThreadingStrategy::single : (mesh_perm == 1 ? ThreadingStrategy::colored : ThreadingStrategy::layered); return s; };
    RTrafo trafo(*mesh);
    J steered = J::arr();
    // known findings (see c17_sched_core.hpp for the classes). one-layer is predictable without compiling; the other two
    // need the resolved worker count, which a throw-away assembler provides before the case is announced
    bool one_layer = (resolve() == ThreadingStrategy::layered || resolve() == ThreadingStrategy::layered_sorted) && cfg.maxw >= 1 && sub.cells.size() == 1;
    if(one_layer) { c.label("kf:one-layer"); if(c.excl("c17-one-layer")) { cfg.maxw = 0; steered.add("one-layer"); one_layer = false; } }
    std::size_t nw_pred = 0;
    if(!one_layer)
    {
      auto dry = [&]() { DA<RTrafo> d(trafo); d.set_threading_strategy(cfg.strat); d.set_max_worker_threads(cfg.maxw); apply_subset(d, *mesh, sub); return d.get_num_worker_threads(); };
      nw_pred = dry();
      if(nw_pred == 1 && !sub.cells.empty()) { c.label("kf:one-worker"); if(c.excl("c17-one-worker")) { cfg.maxw = 0; steered.add("one-worker"); nw_pred = dry(); } }
      if(resolve() == ThreadingStrategy::colored && nw_pred >= 2 && ((kind >= 5 && kind <= 7) || kind == 9))
      { c.label("kf:colored-noscatter"); if(c.excl("c17-colored-noscatter")) { kind = 8; steered.add("colored-noscatter"); } }
    }

    c.desc.set("mesh", ms.desc);
    J sj = J::obj(); sj.set("class", sub.cls); sj.set("how", sub.how); sj.set("count", (long long)sub.cells.size()); if(sub.cells.size() <= 24) sj.set("cells", sub.cells);
    c.desc.set("subset", sj); c.desc.set("strategy", strat_name(cfg.strat)); c.desc.set("max_workers", (long long)cfg.maxw);
    c.desc.set("kind", real_kinds[kind]); c.desc.set("calls", reps); c.desc.set("cubature", "gauss-legendre:" + std::to_string(cubdeg)); c.desc.set("alpha", alpha);
    J sc = J::arr(); for(auto& s : scheds) sc.add(s.json()); c.desc.set("sched", sc);
    if(!steered.a.empty()) c.desc.set("steered", steered);
    c.op = std::string(strat_name(resolve())) + "/" + real_kinds[kind];
    c.nontrivial = !sub.cells.empty() && cfg.maxw >= 1;
    c.label(std::string("kind:") + real_kinds[kind]); c.label("mesh:" + ms.cls); c.label("subset:" + sub.cls); c.label("how:" + sub.how);
    c.label(std::string("strategy:") + strat_name(cfg.strat)); c.label(std::string("resolved:") + strat_name(resolve())); c.label(std::string("perm:") + perm_name(mesh_perm));
    c.label(workers_class(nw_pred)); c.label("calls:" + std::to_string(reps)); for(auto& s : scheds) c.label("sched:" + std::to_string(s.mode));
    c.label("cells:" + std::string(sub.cells.empty() ? "0" : sub.cells.size() == 1 ? "1" : sub.cells.size() <= 16 ? "2-16" : "17+"));
    c.announce();
    verdict_fd() = c.fd;

    RQ1 q1(trafo); RQ2 q2(trafo);
    DA<RTrafo> da(trafo); da.set_threading_strategy(cfg.strat); da.set_max_worker_threads(cfg.maxw);
    apply_subset(da, *mesh, sub);
    Adj adj(ms);
    check_structure(da, ms, sub, adj, cfg.maxw);
    REnv e{ c, ms, *mesh, trafo, q1, q2, sub, adj, da, da.get_num_worker_threads(), reps, scheds, String("gauss-legendre:" + std::to_string(cubdeg)), cubdeg * cubdeg, alpha, o.wd_ms,
            int(ms.desc.geti("blocks", 1)), RFunc(), RVec(q1.get_num_dofs()), RVec(q2.get_num_dofs()) };
    { Rng r(77); for(Index i = 0; i < e.v1.size(); ++i) e.v1(i, double(int(r.below(513)) - 256) / 256.0); for(Index i = 0; i < e.v2.size(); ++i) e.v2(i, double(int(r.below(513)) - 256) / 256.0); }

    Assembly::Common::LaplaceOperator lap; Assembly::Common::IdentityOperator ident; Assembly::Common::ForceFunctional<RFunc> ffun(e.func);
    auto raw_m = [](RMat& m) { return std::make_pair(m.val(), std::size_t(m.used_elements())); };
    auto raw_v = [](RVec& v) { return std::make_pair(v.elements(), std::size_t(v.size())); };
    switch(kind)
    {
    case 0:
      run_container_kind(e, [&] { RMat m; Assembly::SymbolicAssembler::assemble_matrix_std1(m, q1); m.format(); return m; },
        [&](RMat& m) { return Assembly::BilinearOperatorMatrixAssemblyJob1<Assembly::Common::LaplaceOperator, RMat, RQ1>(lap, m, q1, e.cub, alpha); }, raw_m);
      break;
    case 1:
      run_container_kind(e, [&] { RMat m; Assembly::SymbolicAssembler::assemble_matrix_std1(m, q2); m.format(); return m; },
        [&](RMat& m) { return Assembly::BilinearOperatorMatrixAssemblyJob1<Assembly::Common::IdentityOperator, RMat, RQ2>(ident, m, q2, e.cub, alpha); }, raw_m);
      break;
    case 2:
      run_container_kind(e, [&] { RMat m; Assembly::SymbolicAssembler::assemble_matrix_std2(m, q2, q1); m.format(); return m; },
        [&](RMat& m) { return Assembly::BilinearOperatorMatrixAssemblyJob2<Assembly::Common::IdentityOperator, RMat, RQ2, RQ1>(ident, m, q2, q1, e.cub, alpha); }, raw_m);
      break;
    case 3:
      run_container_kind(e, [&] { RVec v(q1.get_num_dofs(), 0.0); return v; },
        [&](RVec& v) { return Assembly::ForceFunctionalAssemblyJob<RFunc, RVec, RQ1>(e.func, v, q1, e.cub, alpha); }, raw_v);
      break;
    case 4:
      run_container_kind(e, [&] { RVec v(q2.get_num_dofs(), 0.0); return v; },
        [&](RVec& v) { return Assembly::LinearFunctionalAssemblyJob<Assembly::Common::ForceFunctional<RFunc>, RVec, RQ2>(ffun, v, q2, e.cub, alpha); }, raw_v);
      break;
    case 5:
      run_integral_kind(e, [&] { return Assembly::AnalyticFunctionIntegralJob<double, RFunc, RTrafo, 2>(e.func, trafo, e.cub); }, "analytic integral");
      break;
    case 6:
      run_integral_kind(e, [&] { return Assembly::DiscreteFunctionIntegralJob<RVec, RQ1, 1>(e.v1, q1, e.cub); }, "discrete integral");
      break;
    case 7:
      run_integral_kind(e, [&] { return Assembly::ErrorFunctionIntegralJob<RFunc, RVec, RQ2, 1>(e.func, e.v2, q2, e.cub); }, "error integral");
      break;
    case 9:
      {
        // vector field (blocked coefficient vector): every worker's partial integrals are merged by Task::combine ->
        // FunctionIntegralInfo::push; the component-wise norms must be accumulated like the totals
        typedef LAFEM::DenseVectorBlocked<double, Index, 2> RVecB; RVecB vb(q1.get_num_dofs());
        for(Index i = 0; i < vb.size(); ++i) { Tiny::Vector<double, 2> q; q[0] = e.v1(i); q[1] = 0.5 - 0.75 * e.v1(i) + 0.125 * double(i % 7); vb(i, q); }
        typedef Assembly::DiscreteFunctionIntegralJob<RVecB, RQ1, 1> JobB;
        JobB js(vb, q1, e.cub);
        { DA<RTrafo> ds(trafo); apply_subset(ds, *mesh, sub); for(int r = 0; r < reps; ++r) ds.assemble(js); }
        auto attempt = [&]() -> std::string
        {
          try
          {
            JobB jt(vb, q1, e.cub); for(int r = 0; r < reps; ++r) assemble_threaded(e, jt, r);
            const auto& a = jt.result(); const auto& b = js.result(); const char* who = "blocked discrete integral";
            FieldCmp f{ double(e.reps) * double(e.sub.cells.size()) * double(e.npts) + double(e.nw) + 2.0, 12.0 * e.blocks * e.reps, who };
            f.chk("norm_h0_sqr", a.norm_h0_sqr, b.norm_h0_sqr, std::max(a.norm_h0_sqr, b.norm_h0_sqr)); f.chk("norm_h1_sqr", a.norm_h1_sqr, b.norm_h1_sqr, std::max(a.norm_h1_sqr, b.norm_h1_sqr)); f.chk("norm_l1", a.norm_l1, b.norm_l1, std::max(a.norm_l1, b.norm_l1));
            for(int i = 0; i < 2; ++i)
            {
              f.chk("value[i]", a.value[i], b.value[i], std::max(a.norm_l1, b.norm_l1));
              f.chk("norm_h0_sqr_comp[i]", a.norm_h0_sqr_comp[i], b.norm_h0_sqr_comp[i], std::max(a.norm_h0_sqr, b.norm_h0_sqr));
              f.chk("norm_h1_sqr_comp[i]", a.norm_h1_sqr_comp[i], b.norm_h1_sqr_comp[i], std::max(a.norm_h1_sqr, b.norm_h1_sqr));
              f.chk("norm_l1_comp[i]", a.norm_l1_comp[i], b.norm_l1_comp[i], std::max(a.norm_l1, b.norm_l1));
            }
            // the component-wise squared norms add up to the totals (also in the serial run)
            f.chk("sum of norm_h1_sqr_comp vs norm_h1_sqr (threaded)", a.norm_h1_sqr_comp[0] + a.norm_h1_sqr_comp[1], a.norm_h1_sqr, a.norm_h1_sqr);
            f.chk("sum of norm_h1_sqr_comp vs norm_h1_sqr (serial)", b.norm_h1_sqr_comp[0] + b.norm_h1_sqr_comp[1], b.norm_h1_sqr, b.norm_h1_sqr);
            f.chk("sum of norm_h0_sqr_comp vs norm_h0_sqr (threaded)", a.norm_h0_sqr_comp[0] + a.norm_h0_sqr_comp[1], a.norm_h0_sqr, a.norm_h0_sqr);
          }
          catch(vf::Fail& ff) { return ff.sym; }
          return "";
        };
        confirm_in_child(attempt);
      }
      break;
    default:
      {
        typedef Assembly::CellErrorFunctionIntegralJob<RFunc, RVec, RQ1, 1> JobT;
        JobT js(e.func, e.v1, q1, e.cub);
        { DA<RTrafo> ds(trafo); apply_subset(ds, *mesh, sub); for(int r = 0; r < reps; ++r) ds.assemble(js); }
        auto rs = js.result();
        std::vector<char> sel(ms.nc(), 0); for(Index cl : sub.cells) sel[cl] = 1;
        auto attempt = [&]() -> std::string
        {
          try
          {
            JobT jt(e.func, e.v1, q1, e.cub);
            for(int r = 0; r < reps; ++r) assemble_threaded(e, jt, r);
            auto rt = jt.result();
            compare_info(e, rs.integral_info, rt.integral_info, "cell error integral");
            VF_CHECK(rs.vec.size() == rt.vec.size() && rs.vec.size() == ms.nc(), "cell error vector has the wrong length");
            for(Index i = 0; i < rs.vec.size(); ++i)
            {
              auto a = rs.vec(i); auto b = rt.vec(i);
              for(int k = 0; k < 2; ++k) VF_CHECK(a[k] == b[k], "cell error vector entry " << i << "[" << k << "] threaded " << b[k] << " vs serial " << a[k] << " (per-cell values are order independent)");
              if(!sel[i]) VF_CHECK(b[0] == 0.0 && b[1] == 0.0, "cell error vector entry of unselected cell " << i << " was written");
            }
          }
          catch(vf::Fail& f) { return f.sym; }
          return "";
        };
        confirm_in_child(attempt);
      }
      break;
    }
  }

  inline void add_real_targets(std::vector<vf::Target>& tg, const std::string& prefix)
  {
    tg.push_back({ prefix + "real", [](Tape& t, Ctx& c) { RealOpts o; o.max_cells = 144; real_case(t, c, o); }, 56, 0, 60000 });
    tg.push_back({ prefix + "real_big", [](Tape& t, Ctx& c) { RealOpts o; o.max_cells = 1024; real_case(t, c, o); }, 56, 0, 60000 });
  }
} // namespace c17
