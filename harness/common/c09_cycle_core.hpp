// c09_cycle_core.hpp - C09 (a)+(b): Solver::MultiGrid on generated, non mesh-based hierarchies with logging mock
// smoothers / coarse solvers and logging transfers: event trace against a recursive reference of the documented V/F/W
// cycles, structural facts of the property text (coarse visits, peak order), and the result vector against the same
// recursion evaluated in long double with a running rounding-error bound.  Parametrised by a backend: plain LAFEM
// containers (LAFEM::Transfer) or their Global:: wrappers on a single-process gate (Global::Transfer).
#pragma once
#include "c09_core.hpp"
#include <deque>
#include <iomanip>
using namespace vf;
using namespace c09;

/// backend: plain LAFEM containers
template<typename DT_, typename IT_> struct LocalBackend
{
  typedef DT_ DT; typedef IT_ IT;
  typedef SparseMatrixCSR<DT, IT> LM; typedef DenseVector<DT, IT> LV; typedef UnitFilter<DT, IT> LF;
  typedef LM M; typedef LV V; typedef LF F; typedef FEAT::LAFEM::Transfer<LM> T0;
  struct LevelCtx { explicit LevelCtx(int) {} };
  static M make_matrix(LevelCtx&, LM&& m) { return std::move(m); }
  static F make_filter(LevelCtx&, LF&& f) { return std::move(f); }
  static V make_vector(LevelCtx&, int n, DT val) { return V(Index(n), val); }
  /// every second transfer operator of a case is handed to the hierarchy as a CONVERTED copy (Transfer::convert, the route of
  /// mixed-precision hierarchies): the multigrid must be the same linear map with it (deterministic per case: each case runs in
  /// its own forked child, the counter starts at 0 there)
  static T0 make_transfer(LM&& p, LM&& r) { static unsigned built = 0; T0 a(std::move(p), std::move(r)); if((++built) % 2u == 0u) return a; T0 b; b.convert(a); return b; }
  static DT* data(V& v) { return v.elements(); }
  static const DT* data(const V& v) { return v.elements(); }
  static int size(const V& v) { return (int)v.size(); }
  static const LM& local(const M& m) { return m; }
  static const char* name() { return "lafem"; }
};

namespace
{
  struct Step { int cyc = 0, top = 0, crs = 0, adapt = 0; bool neg_crs = false, new_object = false; int dcls = 0; std::vector<double> def; };
  const char* cyc_names[] = { "V", "F", "W" };
  const char* adapt_names[] = { "fixed", "min_energy", "min_defect" };
  const char* dcls_names[] = { "random", "zero", "unit" };

  std::string join(const std::vector<std::string>& v, size_t from, size_t to)
  {
    std::string s; for(size_t k = from; k < to && k < v.size(); ++k) { if(!s.empty()) s += ' '; s += v[k]; } return s;
  }
}

template<typename B> void cycle_case(Tape& t, Ctx& c, int max_levels, int max_grow)
{
  typedef typename B::DT DT; typedef typename B::IT IT;
  typedef typename B::M M; typedef typename B::V V; typedef typename B::F F; typedef LogTransfer<B> TR; typedef typename B::LM LM; typedef typename B::LF LF;
  typedef FEAT::Solver::MultiGridHierarchy<M, F, TR> H; typedef FEAT::Solver::MultiGrid<M, F, TR> MG;
  using FEAT::Solver::MultiGridCycle; using FEAT::Solver::MultiGridAdaptCGC;
  static const MultiGridCycle cyc_e[] = { MultiGridCycle::V, MultiGridCycle::F, MultiGridCycle::W };
  static const MultiGridAdaptCGC ad_e[] = { MultiGridAdaptCGC::Fixed, MultiGridAdaptCGC::MinEnergy, MultiGridAdaptCGC::MinDefect };

  HierDesc h = gen_hierarchy<DT>(t, c, max_levels, max_grow);
  const int nlev = h.nlev;

  // ---- steps: repeated applications on one object, with set_cycle / set_levels / set_adapt_cgc in between
  int nsteps = 1 + t.pick({5, 3, 2});
  std::vector<Step> steps((size_t)nsteps);
  for(int s = 0; s < nsteps; ++s)
  {
    Step& st = steps[s];
    st.cyc = t.pick({2, 3, 3});
    switch(t.pick({4, 4, 1}))
    {
    case 0: st.top = 0; st.crs = nlev - 1; break;
    case 1: // proper sub-range with at least two levels where the hierarchy has them
      st.top = t.range(0, std::max(0, nlev - 2)); st.crs = nlev >= 2 ? t.range(st.top + 1, nlev - 1) : st.top;
      if(st.top == 0 && st.crs == nlev - 1 && nlev >= 3) { if(t.flag()) ++st.top; else --st.crs; }
      break;
    default: st.top = st.crs = t.range(0, nlev - 1); break;
    }
    st.neg_crs = t.flag(1, 3);
    st.adapt = t.pick({3, 2, 2});
    st.new_object = s > 0 && t.flag(1, 5);
    st.dcls = t.pick({6, 1, 1});
    int n = h.lv[st.top].n; st.def.assign((size_t)n, 0.0);
    if(st.dcls == 0) for(auto& x : st.def) x = t.real(1);
    if(st.dcls == 2) st.def[(size_t)t.range(0, n - 1)] = 1.0;
    // Domain fact: a defect handed to a preconditioner of a filtered system is itself filtered (every iterative
    // solver applies filter_def before calling its preconditioner), so the generated defects are.
    for(int i = 0; i < n; ++i) if(h.lv[st.top].filt[i]) st.def[(size_t)i] = 0.0;
  }

  // ---- feat3 objects
  std::deque<typename B::LevelCtx> LC; std::deque<M> A; std::deque<F> Fi; std::deque<TR> T;
  std::vector<std::vector<std::shared_ptr<MockSolver<B>>>> objs((size_t)nlev);
  std::vector<RefLevel> RL((size_t)nlev);
  for(int l = 0; l < nlev; ++l)
  {
    const LevelDesc& L = h.lv[l]; RefLevel& R = RL[l];
    LC.emplace_back(L.n);
    A.push_back(B::make_matrix(LC.back(), make_csr<DT, IT>(L.A)));
    { LF lf{Index(L.n)}; for(int i = 0; i < L.n; ++i) if(L.filt[i]) lf.add(IT(i), DT(0)); Fi.push_back(B::make_filter(LC.back(), std::move(lf))); }
    R.n = L.n; R.A = dm_of(dense_of(B::local(A.back()))); R.filt = L.filt;
    VF_CHECK(R.A.r == L.n && R.A.c == L.n, "level matrix has wrong dimensions");
    if(l + 1 < nlev)
    {
      T.emplace_back(make_csr<DT, IT>(L.P), make_csr<DT, IT>(L.R), l);
      R.P = dm_of(dense_of(T.back().get_mat_prol())); R.R = dm_of(dense_of(T.back().get_mat_rest()));
    }
    for(int r = 0; r < 4; ++r) R.role[r] = L.role[r];
    for(size_t k = 0; k < L.ops.size(); ++k)
    {
      std::vector<DT> S = build_op<DT>(L.ops[k], R.A, L.filt);
      DM Sd(L.n, L.n); for(size_t q = 0; q < S.size(); ++q) Sd.a[q] = (LD)S[q];
      R.ops.push_back(Sd);
      objs[l].push_back(std::make_shared<MockSolver<B>>("L" + std::to_string(l) + ":" + std::to_string(k), L.n, std::move(S)));
    }
  }
  auto role_ptr = [&](int l, int r) -> std::shared_ptr<FEAT::Solver::SolverBase<V>> { int k = h.lv[l].role[r]; if(k < 0) return nullptr; return objs[l][(size_t)k]; };

  // ---- reference first (it also tells whether a step is in the zero-correction class of the known finding)
  Ref ref(RL, unit_roundoff<DT>());
  struct Expect { EV x; std::vector<std::string> tr, trh; bool illcond, zero_cor; std::vector<double> omegas; bool range_ok; };
  // DESIGN 2.11: magnitudes are kept where over-/underflow (about which the property is silent) cannot fake a failure.
  // Divergent combinations (e.g. restriction 2*P^T in a W-cycle over many levels) exist by construction of the domain;
  // a step whose intermediate values leave [0, sqrt(max)/1e4] is compared by trace only.
  const LD range_limit = sqrtl((LD)std::numeric_limits<DT>::max()) * 1e-4L;
  std::vector<Expect> exp((size_t)nsteps);
  bool any_adapt = false, any_zero_cor = false;
  for(int s = 0; s < nsteps; ++s)
  {
    Step& st = steps[s];
    std::vector<LD> d(st.def.size()); for(size_t i = 0; i < d.size(); ++i) d[i] = (LD)DT(st.def[i]);
    EV x = ref.run(st.cyc, st.top, st.crs, st.adapt, d);
    // known finding c09-adapt-zero-cor: adaptive coarse grid correction with an exactly vanishing correction divides 0/0.
    // Steering: such a step is run with the fixed step length instead (the class is exactly "adaptive && correction == 0").
    if(ref.zero_cor && c.excl("c09-adapt-zero-cor")) { st.adapt = 0; x = ref.run(st.cyc, st.top, st.crs, st.adapt, d); }
    exp[s] = Expect{ x, ref.tr, ref.trh, ref.illcond, ref.zero_cor, ref.omegas, ref.maxabs <= range_limit };
    any_adapt = any_adapt || st.adapt != 0; any_zero_cor = any_zero_cor || ref.zero_cor;
  }

  // ---- description, labels, non-trivial rule
  c.desc.set("dt", TypeName<DT>::n()); c.desc.set("backend", B::name()); c.desc.set("levels", hier_json(h)); c.desc.set("data", hier_hash(h));
  J js = J::arr();
  bool nt_shape = false; bool all_tight = true, any_compared = false;
  for(int s = 0; s < nsteps; ++s)
  {
    const Step& st = steps[s]; J j = J::obj();
    j.set("cycle", cyc_names[st.cyc]); j.set("top", st.top); j.set("crs", st.neg_crs ? st.crs - nlev : st.crs); j.set("adapt", adapt_names[st.adapt]);
    j.set("defect", J(st.def)); if(st.new_object) j.set("new_object", true);
    js.add(j);
    const int Lv = st.crs - st.top;
    c.label(std::string("cycle:") + cyc_names[st.cyc]); c.label(std::string("adapt:") + adapt_names[st.adapt]);
    c.label(std::string("defect:") + dcls_names[st.dcls]);
    c.label("levels-above-coarse:" + std::to_string(Lv));
    c.label(Lv == 0 ? "range:top==crs" : ((st.top == 0 && st.crs == nlev - 1) ? "range:full" : "range:sub"));
    if(st.neg_crs) c.label("crs-arg:negative");
    if(st.new_object) c.label("second-object-on-hierarchy");
    bool missing = false;
    for(int l = st.top; l <= st.crs; ++l)
    {
      const LevelDesc& L = h.lv[l];
      if(l < st.crs)
      {
        std::string m = "smoothers:"; m += L.role[PRE] >= 0 ? "pre" : "-"; m += L.role[POST] >= 0 ? "+post" : "+-"; m += L.role[PEAK] >= 0 ? "+peak" : "+-";
        c.label(m); if(L.role[PRE] < 0 || L.role[POST] < 0 || L.role[PEAK] < 0) missing = true;
        if(L.role[PEAK] < 0 && (L.role[PRE] >= 0 || L.role[POST] >= 0) && st.cyc != 0 && (st.cyc == 2 || l > st.top)) c.label("peak:fallback-pre+post");
        if((L.role[POST] >= 0 && L.role[POST] == L.role[PRE]) || (L.role[PEAK] >= 0 && (L.role[PEAK] == L.role[PRE] || L.role[PEAK] == L.role[POST]))) c.label("shared-solver-object");
      }
      else { c.label(L.role[CRS] >= 0 ? std::string("coarse:") + op_kind_names[L.ops[L.role[CRS]].kind] : "coarse:none(identity)"); if(L.role[CRS] < 0) missing = true; if(l + 1 < nlev) c.label("coarse:inner-level"); }
    }
    if((Lv >= 2 && st.cyc != 0) || (Lv >= 1 && (!(st.top == 0 && st.crs == nlev - 1) || missing))) nt_shape = true;
    const Expect& e = exp[s];
    if(!e.range_ok) c.label("numeric:out-of-range(divergent)"); else if(e.zero_cor) c.label("numeric:zero-correction"); else if(e.illcond) c.label("numeric:omega-illconditioned");
    else
    {
      any_compared = true; LD mx = 0, me = 0; for(int i = 0; i < e.x.n(); ++i) { mx = std::max(mx, fabsl(e.x.v[i])); me = std::max(me, e.x.e[i]); }
      bool tight = me <= 1e-4L * mx || mx == 0.0L; if(!tight) all_tight = false; c.label(tight ? "tol:tight" : "tol:loose");
    }
  }
  c.desc.set("steps", js);
  c.label(std::string("backend:") + B::name()); c.label("levels:" + std::to_string(nlev)); c.label("steps:" + std::to_string(nsteps)); c.label(std::string("dt:") + TypeName<DT>::n());
  for(int l = 0; l < nlev; ++l) { if(l) c.label("A:" + h.lv[l].a_cls); if(l + 1 < nlev) { c.label("R:" + h.lv[l].r_cls); c.label("P:" + h.lv[l].p_cls); } int nf = 0; for(char f : h.lv[l].filt) nf += f; c.label(nf == 0 ? "filter:none" : (nf == h.lv[l].n ? "filter:all" : "filter:some")); }
  // non-trivial: >= 3 levels in use and a cycle other than V, or a sub-range / missing-smoother variant on >= 2 levels;
  // and the numerical comparison is sharp (bound <= 1e-4 of the result) on every compared step
  c.nontrivial = nt_shape && any_compared && all_tight;
  c.op = any_adapt ? "apply-adaptive" : "apply-fixed";
  c.announce();

  // ---- run feat3
  auto hier = std::make_shared<H>(std::size_t(nlev));
  for(int l = 0; l + 1 < nlev; ++l) hier->push_level(A[l], Fi[l], T[l], role_ptr(l, PRE), role_ptr(l, POST), role_ptr(l, PEAK), role_ptr(l, CRS));
  hier->push_level(A[nlev - 1], Fi[nlev - 1], role_ptr(nlev - 1, CRS));
  hier->init();
  std::vector<std::shared_ptr<MG>> mgs;
  auto crs_arg = [&](const Step& st) { return st.neg_crs ? st.crs - nlev : st.crs; };
  for(int s = 0; s < nsteps; ++s)
  {
    const Step& st = steps[s]; const Expect& e = exp[s];
    if(s == 0 || st.new_object) { mgs.push_back(std::make_shared<MG>(hier, cyc_e[st.cyc], st.top, crs_arg(st))); mgs.back()->init(); }
    else { mgs.back()->set_cycle(cyc_e[st.cyc]); mgs.back()->set_levels(st.top, crs_arg(st)); }
    MG& mg = *mgs.back();
    mg.set_adapt_cgc(ad_e[st.adapt]);
    VF_CHECK(int(mg.get_top_level()) == st.top && int(mg.get_crs_level()) == st.crs, "step " << s << ": level range is " << mg.get_top_level() << ".." << mg.get_crs_level() << " requested " << st.top << ".." << st.crs);
    const int n = h.lv[st.top].n;
    V cor = B::make_vector(LC[(size_t)st.top], n, std::numeric_limits<DT>::quiet_NaN()), def = B::make_vector(LC[(size_t)st.top], n, DT(0));
    for(int i = 0; i < n; ++i) B::data(def)[i] = DT(st.def[(size_t)i]);
    trace().clear();
    FEAT::Solver::Status status = mg.apply(cor, def);
    std::vector<std::string> got = trace();
    const std::string where = std::string("step ") + std::to_string(s) + " " + cyc_names[st.cyc] + "-cycle levels " + std::to_string(st.top) + ".." + std::to_string(st.crs) + " " + adapt_names[st.adapt] + ": ";
    VF_CHECK(status == FEAT::Solver::Status::success, where << "apply returned status " << int(status));
    for(int i = 0; i < n; ++i) VF_CHECK(B::data(def)[i] == DT(st.def[(size_t)i]), where << "input defect modified");
    // (1) structure facts of the property text on feat3's own events
    check_structure(got, st.cyc, st.top, st.crs, h.lv[st.crs].role[CRS] >= 0, h.lv[st.crs].role[CRS]);
    // (2) event by event against the recursive reference
    {
      size_t k = 0; while(k < got.size() && k < e.tr.size() && got[k] == e.tr[k]) ++k;
      if(k < got.size() || k < e.tr.size())
      {
        size_t from = k > 4 ? k - 4 : 0;
        VF_FAIL("mismatch:" << where << "event " << k << " of the trace: feat3 " << (k < got.size() ? got[k] : std::string("<end>")) << ", documented cycle " << (k < e.tr.size() ? e.tr[k] + " (" + e.trh[k] + ")" : std::string("<end>"))
          << "; feat3 [.. " << join(got, from, k + 6) << " ..] reference [.. " << join(e.trh, from, k + 6) << " ..] lengths " << got.size() << "/" << e.tr.size());
      }
    }
    // (3) the result vector
    if(e.illcond || !e.range_ok) continue;
    for(int i = 0; i < n; ++i)
    {
      LD g = (LD)B::data(cor)[i]; LD tol = e.x.e[(size_t)i] + 16.0L * (LD)std::numeric_limits<DT>::min();
      VF_CHECK(std::isfinite((double)g) && fabsl(g - e.x.v[(size_t)i]) <= tol, where << "result entry " << i << " is " << std::setprecision(17) << (double)g << ", reference cycle gives " << (double)e.x.v[(size_t)i] << std::setprecision(6) << " (difference " << (double)fabsl(g - e.x.v[(size_t)i]) << ", bound " << (double)tol << ")"
        << (e.zero_cor ? " [coarse grid correction vanishes exactly: every step length is a minimiser, the iterate must stay finite]" : ""));
    }
  }
  for(auto it = mgs.rbegin(); it != mgs.rend(); ++it) (*it)->done();
  hier->done();
}

