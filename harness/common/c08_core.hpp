// c08_core.hpp - C08: stationary preconditioners apply their defining linear operator.
//
//  * EB arithmetic: long-double value + first-order running error bound of the same computation carried out in
//    the working precision DT (Higham, ASNA 3.3).  The dense textbook operators below are written once on EB, so
//    every reference value comes with a tolerance that is valid for ANY matrix (also non-dominant / ill-conditioned
//    ones, where it merely becomes uninformative) - the oracle never needs a conditioning assumption.
//  * dense textbook operators on (block) matrices: Jacobi, SOR, SSOR, ILU(p) (own level-of-fill pattern), Neumann
//    polynomial, scale / diagonal / matrix products, followed by the correction filter.
//  * case model: matrix (pattern + value versions), preconditioner kind + parameters, filter, history of
//    init_symbolic / init_numeric / apply / value update / done steps, decoded by construction from the tape.
#pragma once
#include "lafem_gen.hpp"
#include <kernel/lafem/none_filter.hpp>
#include <kernel/lafem/unit_filter.hpp>
#include <kernel/lafem/unit_filter_blocked.hpp>
#include <kernel/solver/base.hpp>
#include <kernel/solver/jacobi_precond.hpp>
#include <kernel/solver/sor_precond.hpp>
#include <kernel/solver/ssor_precond.hpp>
#include <kernel/solver/ilu_precond.hpp>
#include <kernel/solver/polynomial_precond.hpp>
#include <kernel/solver/scale_precond.hpp>
#include <kernel/solver/diagonal_precond.hpp>
#include <kernel/solver/matrix_precond.hpp>
#ifdef C08_WITH_SCHWARZ
#include <kernel/lafem/vector_mirror.hpp>
#include <kernel/global/gate.hpp>
#include <kernel/global/vector.hpp>
#include <kernel/global/filter.hpp>
#include <kernel/solver/schwarz_precond.hpp>
#endif

namespace vf
{
  namespace c08
  {
    typedef long double LD;
    static const LD INF = std::numeric_limits<LD>::infinity();

    // ------------------------------------------------------------------------------------------------------------
    // EB: value with running error bound
    // ------------------------------------------------------------------------------------------------------------
    struct EBEnv { LD u = 0, eta = 0, big = 0; };
    inline EBEnv& env() { static EBEnv e; return e; }
    template<typename DT> void set_env()
    {
      env().u = (LD)std::numeric_limits<DT>::epsilon() / 2.0L;
      env().eta = (LD)std::numeric_limits<DT>::min();               // absolute slack per operation (underflow)
      env().big = (LD)std::numeric_limits<DT>::max() * 1e-8L;       // beyond: no claim (overflow of intermediates in DT)
    }
    struct EB
    {
      LD v = 0, e = 0;
      EB() {}
      EB(LD x) : v(x), e(0) {}
      EB(LD x, LD y) : v(x), e(y) {}
      bool ok() const { return e < INF; }
    };
    inline LD san(LD e) { return (e >= 0 && e < INF) ? e : INF; }
    /// result of one rounded operation with propagated error e
    inline EB fin(LD v, LD e)
    {
      const EBEnv& E = env(); const LD a = fabsl(v);
      if(!(a <= E.big)) return EB(v, INF);
      return EB(v, san(e + E.u * a + E.eta));
    }
    inline EB operator+(const EB& a, const EB& b) { if(b.v == 0 && b.e == 0) return a; if(a.v == 0 && a.e == 0) return b; return fin(a.v + b.v, a.e + b.e); }
    inline EB operator-(const EB& a) { return EB(-a.v, a.e); }
    inline EB operator-(const EB& a, const EB& b) { return a + (-b); }
    inline EB operator*(const EB& a, const EB& b)
    {
      if((a.v == 0 && a.e == 0 && b.ok()) || (b.v == 0 && b.e == 0 && a.ok())) return EB(0);
      if((a.v == 1 && a.e == 0)) return b; if((b.v == 1 && b.e == 0)) return a;
      return fin(a.v * b.v, fabsl(a.v) * b.e + fabsl(b.v) * a.e + a.e * b.e);
    }
    inline EB operator/(const EB& a, const EB& b)
    {
      if(!(fabsl(b.v) > 2 * b.e) || b.v == 0) return EB(a.v / b.v, INF);
      const LD q = a.v / b.v;
      return fin(q, (a.e + fabsl(q) * b.e) / (fabsl(b.v) - b.e));
    }
    typedef std::vector<EB> EV;

    /// inverse of a BxB block (row-major) by the adjugate formula (B <= 3)
    inline void inv_block(int B, const EB* a, EB* x)
    {
      if(B == 1) { x[0] = EB(1) / a[0]; return; }
      if(B == 2)
      {
        EB det = a[0] * a[3] - a[1] * a[2]; EB d = EB(1) / det;
        x[0] = d * a[3]; x[1] = -(d * a[1]); x[2] = -(d * a[2]); x[3] = d * a[0]; return;
      }
      // B == 3
      EB c00 = a[4] * a[8] - a[5] * a[7], c10 = a[5] * a[6] - a[3] * a[8], c20 = a[3] * a[7] - a[4] * a[6];
      EB det = a[0] * c00 + a[1] * c10 + a[2] * c20; EB d = EB(1) / det;
      x[0] = c00 * d; x[3] = c10 * d; x[6] = c20 * d;
      x[1] = d * (a[2] * a[7] - a[1] * a[8]); x[4] = d * (a[0] * a[8] - a[2] * a[6]); x[7] = d * (a[1] * a[6] - a[0] * a[7]);
      x[2] = d * (a[1] * a[5] - a[2] * a[4]); x[5] = d * (a[2] * a[3] - a[0] * a[5]); x[8] = d * (a[0] * a[4] - a[1] * a[3]);
    }
    inline LD det_block(int B, const double* a)
    {
      if(B == 1) return a[0];
      if(B == 2) return (LD)a[0] * a[3] - (LD)a[1] * a[2];
      return (LD)a[0] * ((LD)a[4] * a[8] - (LD)a[5] * a[7]) + (LD)a[1] * ((LD)a[5] * a[6] - (LD)a[3] * a[8]) + (LD)a[2] * ((LD)a[3] * a[7] - (LD)a[4] * a[6]);
    }

    // ------------------------------------------------------------------------------------------------------------
    // case model
    // ------------------------------------------------------------------------------------------------------------
    enum Kind { K_JACOBI = 0, K_SOR, K_SSOR, K_ILU, K_POLY, K_SCALE, K_DIAG, K_MATRIX, K_COUNT };
    static const char* kind_name[] = { "jacobi", "sor", "ssor", "ilu", "poly", "scale", "diagonal", "matrix" };
    enum Op { O_INIT_SYM = 0, O_INIT_NUM, O_APPLY, O_UPDATE, O_DONE_NUM, O_DONE_SYM, O_INIT, O_DONE, O_LINCOMB, O_STALE_APPLY };
    static const char* op_name[] = { "init_symbolic", "init_numeric", "apply", "update", "done_numeric", "done_symbolic", "init", "done", "lincomb", "stale_apply" };

    struct Step { int op = 0; int vec = -1; int version = -1; double alpha = 0; std::string upd; };

    struct Case
    {
      int n = 0, B = 1, N = 0;
      std::string patcls, valcls_name, blkcls; int blkc = 0;
      std::vector<std::vector<int>> col;            // sorted block-column indices per block-row (diagonal always present)
      std::vector<int> rowptr;                       // entry offsets
      std::vector<std::vector<double>> ver;          // value versions: pod arrays (entries * B*B), already narrowed to DT
      std::vector<std::vector<double>> dver;         // diagonal-precond vector versions
      int kind = 0; double omega = 1; int p = 0; int m = 0;
      bool dd = false; bool unit = false; std::vector<int> fidx; // filtered (block) indices
      std::vector<std::vector<double>> vecs;         // input vectors (narrowed to DT)
      std::vector<Step> steps;
      long nnzb() const { return (long)rowptr.back(); }
      int find(int i, int j) const { for(size_t k = 0; k < col[i].size(); ++k) if(col[i][k] == j) return rowptr[i] + (int)k; return -1; }
    };

    /// dense view of a value version
    inline Dense dense_of_case(const Case& cs, int version)
    {
      Dense d(cs.N, cs.N); const int B = cs.B; const std::vector<double>& v = cs.ver[(size_t)version];
      for(int i = 0; i < cs.n; ++i) for(size_t k = 0; k < cs.col[i].size(); ++k)
      {
        const int j = cs.col[i][k]; const size_t e = (size_t)(cs.rowptr[i] + (int)k);
        for(int r = 0; r < B; ++r) for(int s = 0; s < B; ++s) { d(i * B + r, j * B + s) = (LD)v[e * B * B + r * B + s]; d.st(i * B + r, j * B + s) = 1; }
      }
      return d;
    }

    // ------------------------------------------------------------------------------------------------------------
    // textbook operators (dense, block aware)
    // ------------------------------------------------------------------------------------------------------------
    struct Oracle
    {
      const Dense& D; int n, B, N;
      Oracle(const Dense& d, int b) : D(d), n(int(d.r) / b), B(b), N(int(d.r)) {}
      bool bst(int i, int j) const { return D.st(i * B, j * B) != 0; }
      EB A(int r, int c) const { return EB(D(r, c)); }

      /// r_i -= f * A_ij x_j  (block row i, block column j)
      void sub_block(EB* r, int i, int j, const EB* xj, const EB& f) const
      {
        for(int a = 0; a < B; ++a) { EB s(0); for(int b = 0; b < B; ++b) s = s + A(i * B + a, j * B + b) * xj[b]; r[a] = r[a] - f * s; }
      }
      void diag_inv(int i, EB* x) const { EB a[9]; for(int r = 0; r < B; ++r) for(int s = 0; s < B; ++s) a[r * B + s] = A(i * B + r, i * B + s); inv_block(B, a, x); }
      static void mv(int B, const EB* m, const EB* x, EB* y) { for(int a = 0; a < B; ++a) { EB s(0); for(int b = 0; b < B; ++b) s = s + m[a * B + b] * x[b]; y[a] = s; } }

      /// Jacobi: omega * diag(A)^-1 d  (scalar main diagonal, also for blocked matrices)
      EV jacobi(const EV& d, LD omega) const { EV x((size_t)N); for(int i = 0; i < N; ++i) x[i] = (EB(omega) / A(i, i)) * d[i]; return x; }

      /// SOR: (D/omega + L)^-1 d with block diagonal D
      EV sor(const EV& d, LD omega) const
      {
        EV x((size_t)N); EB inv[9], r[3], y[3];
        for(int i = 0; i < n; ++i)
        {
          for(int a = 0; a < B; ++a) r[a] = d[i * B + a];
          for(int j = 0; j < i; ++j) if(bst(i, j)) sub_block(r, i, j, &x[j * B], EB(1));
          diag_inv(i, inv); mv(B, inv, r, y);
          for(int a = 0; a < B; ++a) x[i * B + a] = EB(omega) * y[a];
        }
        return x;
      }
      /// SSOR: omega (2-omega) (D + omega U)^-1 D (D + omega L)^-1 d
      EV ssor(const EV& d, LD omega) const
      {
        EV y((size_t)N), x((size_t)N); EB inv[9], r[3], z[3];
        for(int i = 0; i < n; ++i)   // (D + omega L) y = d
        {
          for(int a = 0; a < B; ++a) r[a] = d[i * B + a];
          for(int j = 0; j < i; ++j) if(bst(i, j)) sub_block(r, i, j, &y[j * B], EB(omega));
          diag_inv(i, inv); mv(B, inv, r, z); for(int a = 0; a < B; ++a) y[i * B + a] = z[a];
        }
        for(int i = n - 1; i >= 0; --i) // (D + omega U) x = D y   <=>  x_i = y_i - omega D_i^-1 sum_{j>i} A_ij x_j
        {
          for(int a = 0; a < B; ++a) r[a] = EB(0);
          bool any = false;
          for(int j = i + 1; j < n; ++j) if(bst(i, j)) { sub_block(r, i, j, &x[j * B], EB(-1)); any = true; }   // r = sum A_ij x_j
          if(any) { diag_inv(i, inv); mv(B, inv, r, z); for(int a = 0; a < B; ++a) x[i * B + a] = y[i * B + a] - EB(omega) * z[a]; }
          else for(int a = 0; a < B; ++a) x[i * B + a] = y[i * B + a];
        }
        const EB f = EB(omega) * (EB(2) - EB(omega));
        for(int i = 0; i < N; ++i) x[i] = f * x[i];
        return x;
      }
      /// Neumann polynomial: sum_{k=0..m} (I - omega D^-1 A)^k omega D^-1 d, scalar D.  Value by the recurrence
      /// c_{k+1} = c_0 + (I - omega D^-1 A) c_k; the bound is the larger of recurrence and term-by-term summation.
      EV poly(const EV& d, LD omega, int m) const
      {
        EV c0 = jacobi(d, omega), c = c0, t = c0, s = c0;
        for(int k = 0; k < m; ++k)
        {
          EV ac = matvec(c), at = matvec(t), c2((size_t)N), t2((size_t)N);
          for(int i = 0; i < N; ++i)
          {
            c2[i] = (c[i] + c0[i]) - (EB(omega) / A(i, i)) * ac[i];
            t2[i] = t[i] - (EB(omega) / A(i, i)) * at[i];
          }
          c = c2; t = t2; for(int i = 0; i < N; ++i) s[i] = s[i] + t[i];
        }
        for(int i = 0; i < N; ++i) c[i].e = san(std::max(c[i].e, s[i].e) + fabsl(c[i].v - s[i].v));
        return c;
      }
      EV matvec(const EV& x) const
      {
        EV y((size_t)N);
        for(int r = 0; r < N; ++r) { EB s(0); for(int c2 = 0; c2 < N; ++c2) if(D.st(r, c2)) s = s + A(r, c2) * x[c2]; y[r] = s; }
        return y;
      }

      // ------------------------------------------------------------------ ILU(p)
      /// level-of-fill pattern (textbook: lev_ij = min(lev_ij, lev_ik + lev_kj + 1), keep lev <= p)
      std::vector<char> ilu_pattern(int p) const
      {
        const int BIGL = 1 << 28; std::vector<int> lev((size_t)(n * n), BIGL);
        for(int i = 0; i < n; ++i) for(int j = 0; j < n; ++j) if(bst(i, j)) lev[i * n + j] = 0;
        for(int i = 1; i < n; ++i) for(int k = 0; k < i; ++k)
        {
          if(lev[i * n + k] > p) continue;
          for(int j = k + 1; j < n; ++j) { if(lev[k * n + j] > p) continue; int l = lev[i * n + k] + lev[k * n + j] + 1; if(l < lev[i * n + j]) lev[i * n + j] = l; }
        }
        std::vector<char> P((size_t)(n * n), 0);
        for(int i = 0; i < n * n; ++i) P[i] = lev[i] <= p;
        return P;
      }
      struct Factor { std::vector<char> P; EV F; EV dinv; };   // F: L below (unit diagonal implied), D+U on and above; dinv: inverses of the pivot blocks
      /// incomplete factorisation A ~ (I+L)(D+U) restricted to P: (LU)_ij = A_ij for (i,j) in P
      Factor ilu_factor(const std::vector<char>& P) const
      {
        Factor f; f.P = P; f.F.assign((size_t)(N * N), EB(0)); f.dinv.assign((size_t)(n * B * B), EB(0));
        for(int r = 0; r < N; ++r) for(int c2 = 0; c2 < N; ++c2) if(D.st(r, c2)) f.F[r * N + c2] = A(r, c2);
        auto blk = [&](int i, int j, int a, int b) -> EB& { return f.F[(size_t)((i * B + a) * N + j * B + b)]; };
        EB tmp[9], piv[9];
        for(int i = 0; i < n; ++i)
        {
          for(int k = 0; k < i; ++k)
          {
            if(!P[i * n + k]) continue;
            // L_ik = F_ik * inv(F_kk)
            for(int a = 0; a < B; ++a) for(int b = 0; b < B; ++b) { EB s(0); for(int q = 0; q < B; ++q) s = s + blk(i, k, a, q) * f.dinv[(size_t)(k * B * B + q * B + b)]; tmp[a * B + b] = s; }
            for(int a = 0; a < B; ++a) for(int b = 0; b < B; ++b) blk(i, k, a, b) = tmp[a * B + b];
            for(int j = k + 1; j < n; ++j)
            {
              if(!P[k * n + j] || !P[i * n + j]) continue;
              for(int a = 0; a < B; ++a) for(int b = 0; b < B; ++b) { EB s(0); for(int q = 0; q < B; ++q) s = s + tmp[a * B + q] * blk(k, j, q, b); blk(i, j, a, b) = blk(i, j, a, b) - s; }
            }
          }
          for(int a = 0; a < B; ++a) for(int b = 0; b < B; ++b) piv[a * B + b] = blk(i, i, a, b);
          inv_block(B, piv, &f.dinv[(size_t)(i * B * B)]);
        }
        return f;
      }
      EV ilu_solve(const Factor& f, const EV& d) const
      {
        EV y((size_t)N), x((size_t)N); EB r[3], z[3];
        auto blk = [&](int i, int j, int a, int b) -> const EB& { return f.F[(size_t)((i * B + a) * N + j * B + b)]; };
        for(int i = 0; i < n; ++i)
        {
          for(int a = 0; a < B; ++a) r[a] = d[i * B + a];
          for(int k = 0; k < i; ++k) if(f.P[i * n + k]) for(int a = 0; a < B; ++a) { EB s(0); for(int b = 0; b < B; ++b) s = s + blk(i, k, a, b) * y[k * B + b]; r[a] = r[a] - s; }
          for(int a = 0; a < B; ++a) y[i * B + a] = r[a];
        }
        for(int i = n - 1; i >= 0; --i)
        {
          for(int a = 0; a < B; ++a) r[a] = y[i * B + a];
          for(int j = i + 1; j < n; ++j) if(f.P[i * n + j]) for(int a = 0; a < B; ++a) { EB s(0); for(int b = 0; b < B; ++b) s = s + blk(i, j, a, b) * x[j * B + b]; r[a] = r[a] - s; }
          mv(B, &f.dinv[(size_t)(i * B * B)], r, z);
          for(int a = 0; a < B; ++a) x[i * B + a] = z[a];
        }
        return x;
      }
      /// dense product M = (I+L)(D+U) (values only); L: blocks strictly below the block diagonal, D+U: the rest of F
      std::vector<LD> ilu_product(const Factor& f) const
      {
        std::vector<LD> M((size_t)(N * N), 0.0L);
        for(int r = 0; r < N; ++r) for(int c2 = 0; c2 < N; ++c2)
        {
          LD s = 0; const int bi = r / B, bj = c2 / B;
          for(int q = 0; q < N; ++q)
          {
            const int bq = q / B;
            const LD l = (bq < bi) ? f.F[(size_t)(r * N + q)].v : (q == r ? 1.0L : 0.0L);
            const LD u2 = (bq <= bj) ? f.F[(size_t)(q * N + c2)].v : 0.0L;
            s += l * u2;
          }
          M[(size_t)(r * N + c2)] = s;
        }
        return M;
      }
    };

    /// dense solve with partial pivoting (values only); returns false when singular to working accuracy
    inline bool gepp_solve(int N, std::vector<LD> a, std::vector<LD>& b)
    {
      for(int k = 0; k < N; ++k)
      {
        int p = k; for(int i = k + 1; i < N; ++i) if(fabsl(a[i * N + k]) > fabsl(a[p * N + k])) p = i;
        if(a[p * N + k] == 0 || !std::isfinite((double)a[p * N + k])) return false;
        if(p != k) { for(int j = 0; j < N; ++j) std::swap(a[k * N + j], a[p * N + j]); std::swap(b[k], b[p]); }
        for(int i = k + 1; i < N; ++i) { LD f = a[i * N + k] / a[k * N + k]; if(f == 0) continue; for(int j = k; j < N; ++j) a[i * N + j] -= f * a[k * N + j]; b[i] -= f * b[k]; }
      }
      for(int i = N - 1; i >= 0; --i) { LD s = b[i]; for(int j = i + 1; j < N; ++j) s -= a[i * N + j] * b[j]; b[i] = s / a[i * N + i]; }
      return true;
    }
    /// dense inverse by Gauss-Jordan with partial pivoting
    inline bool gj_inverse(int N, std::vector<LD> a, std::vector<LD>& inv)
    {
      const std::vector<LD> a0 = a;
      inv.assign((size_t)(N * N), 0.0L); for(int i = 0; i < N; ++i) inv[i * N + i] = 1;
      for(int k = 0; k < N; ++k)
      {
        int p = k; for(int i = k + 1; i < N; ++i) if(fabsl(a[i * N + k]) > fabsl(a[p * N + k])) p = i;
        if(a[p * N + k] == 0 || !std::isfinite((double)a[p * N + k])) return false;
        if(p != k) for(int j = 0; j < N; ++j) { std::swap(a[k * N + j], a[p * N + j]); std::swap(inv[k * N + j], inv[p * N + j]); }
        LD d = a[k * N + k]; for(int j = 0; j < N; ++j) { a[k * N + j] /= d; inv[k * N + j] /= d; }
        for(int i = 0; i < N; ++i) if(i != k) { LD f = a[i * N + k]; if(f == 0) continue; for(int j = 0; j < N; ++j) { a[i * N + j] -= f * a[k * N + j]; inv[i * N + j] -= f * inv[k * N + j]; } }
      }
      // Gauss-Jordan is not componentwise stable: two Newton-Schulz steps X <- X + X (I - A X) bring the forward error
      // down to the level of the rounding in the residual, ~ N u (|X||A||X|)_ij
      for(int it = 0; it < 2; ++it)
      {
        std::vector<LD> R((size_t)(N * N)), X2 = inv;
        for(int i = 0; i < N; ++i) for(int j = 0; j < N; ++j) { LD s2 = (i == j) ? 1.0L : 0.0L; for(int q = 0; q < N; ++q) s2 -= a0[(size_t)(i * N + q)] * inv[(size_t)(q * N + j)]; R[(size_t)(i * N + j)] = s2; }
        for(int i = 0; i < N; ++i) for(int j = 0; j < N; ++j) { LD s2 = 0; for(int q = 0; q < N; ++q) s2 += inv[(size_t)(i * N + q)] * R[(size_t)(q * N + j)]; X2[(size_t)(i * N + j)] += s2; }
        inv = X2;
      }
      for(LD x : inv) if(!std::isfinite((double)x)) return false;
      return true;
    }

    // ------------------------------------------------------------------------------------------------------------
    // feat3 type selection
    // ------------------------------------------------------------------------------------------------------------
    template<typename DT, typename IT, int B> struct Types
    {
      typedef SparseMatrixBCSR<DT, IT, B, B> M; typedef DenseVectorBlocked<DT, IT, B> V;
      typedef NoneFilterBlocked<DT, IT, B> FN; typedef UnitFilterBlocked<DT, IT, B> FU;
      static DT* vp(V& v) { return v.template elements<Perspective::pod>(); }
      static const DT* vp(const V& v) { return v.template elements<Perspective::pod>(); }
      static DT* mp(M& m) { return m.template val<Perspective::pod>(); }
      static void fadd(FU& f, int i) { f.add(IT(i), Tiny::Vector<DT, B>(DT(0))); }
    };
    template<typename DT, typename IT> struct Types<DT, IT, 1>
    {
      typedef SparseMatrixCSR<DT, IT> M; typedef DenseVector<DT, IT> V;
      typedef NoneFilter<DT, IT> FN; typedef UnitFilter<DT, IT> FU;
      static DT* vp(V& v) { return v.elements(); }
      static const DT* vp(const V& v) { return v.elements(); }
      static DT* mp(M& m) { return m.val(); }
      static void fadd(FU& f, int i) { f.add(IT(i), DT(0)); }
    };

    template<typename DT, typename IT, int B>
    typename Types<DT, IT, B>::M build_matrix(const Case& cs)
    {
      typedef Types<DT, IT, B> T;
      Adjacency::Graph g(Index(cs.n), Index(cs.n), Index(cs.nnzb()));
      Index* dp = g.get_domain_ptr(); Index* ii = g.get_image_idx(); Index k = 0; dp[0] = 0;
      for(int i = 0; i < cs.n; ++i) { for(int c2 : cs.col[i]) ii[k++] = Index(c2); dp[i + 1] = k; }
      typename T::M m(g);
      DT* v = T::mp(m); const std::vector<double>& src = cs.ver[0];
      for(size_t q = 0; q < src.size(); ++q) v[q] = DT(src[q]);
      return m;
    }

    // ------------------------------------------------------------------------------------------------------------
    // generator (by construction)
    // ------------------------------------------------------------------------------------------------------------
    static const char* patcls_names[] = { "random", "diagonal", "tridiag", "banded", "full", "lower", "upper", "symmetric", "arrow", "rev-arrow", "ring" };

    inline void gen_pattern(Tape& t, Case& cs, int maxn)
    {
      int cls = t.pick({30, 5, 10, 10, 8, 7, 7, 8, 8, 7, 8});
      cs.patcls = patcls_names[cls];
      cs.n = t.sized(1, maxn); const int n = cs.n; cs.N = n * cs.B;
      std::vector<std::vector<char>> on(n, std::vector<char>(n, 0));
      switch(cls)
      {
      case 0: { unsigned num = (unsigned)t.range(1, 9); for(int i = 0; i < n; ++i) for(int j = 0; j < n; ++j) on[i][j] = t.flag(num, 10); break; }
      case 1: break;
      case 2: for(int i = 0; i < n; ++i) { if(i > 0) on[i][i - 1] = 1; if(i + 1 < n) on[i][i + 1] = 1; } break;
      case 3: { int lo = t.range(0, 4), hi = t.range(0, 4); for(int i = 0; i < n; ++i) for(int j = std::max(0, i - lo); j <= std::min(n - 1, i + hi); ++j) on[i][j] = t.flag(3, 4); break; }
      case 4: for(int i = 0; i < n; ++i) for(int j = 0; j < n; ++j) on[i][j] = 1; break;
      case 5: { unsigned num = (unsigned)t.range(2, 9); for(int i = 0; i < n; ++i) for(int j = 0; j < i; ++j) on[i][j] = t.flag(num, 10); break; }
      case 6: { unsigned num = (unsigned)t.range(2, 9); for(int i = 0; i < n; ++i) for(int j = i + 1; j < n; ++j) on[i][j] = t.flag(num, 10); break; }
      case 7: { unsigned num = (unsigned)t.range(1, 7); for(int i = 0; i < n; ++i) for(int j = 0; j < i; ++j) if(t.flag(num, 10)) { on[i][j] = 1; on[j][i] = 1; } break; }
      case 8: for(int i = 1; i < n; ++i) { on[0][i] = 1; on[i][0] = 1; } break;           // complete fill at level 1.. (arrow pointing up-left)
      case 9: for(int i = 0; i + 1 < n; ++i) { on[n - 1][i] = 1; on[i][n - 1] = 1; } break; // no fill at all
      case 10: for(int i = 0; i < n; ++i) { on[i][(i + 1) % n] = 1; on[(i + 1) % n][i] = 1; } break;   // periodic tridiagonal: fill levels 1..n-3 appear one after the other
      }
      cs.col.assign(n, {}); cs.rowptr.assign(n + 1, 0);
      for(int i = 0; i < n; ++i) { on[i][i] = 1; for(int j = 0; j < n; ++j) if(on[i][j]) cs.col[i].push_back(j); cs.rowptr[i + 1] = cs.rowptr[i] + (int)cs.col[i].size(); }
    }

    template<typename DT> double narrow(double x) { return (double)DT(x); }

    /// make the values of one version legal for the kind: non-zero scalar diagonal / invertible diagonal blocks /
    /// strict row dominance (dd) / unit rows for filtered dofs (poly + unit filter, see findings: the Neumann polynomial
    /// is only defined unambiguously for a filtered matrix and defect).
    template<typename DT> void legalise(const Case& cs, std::vector<double>& v)
    {
      const int B = cs.B, n = cs.n, BB = B * B;
      const bool need_scalar_diag = (cs.kind == K_JACOBI || cs.kind == K_POLY);
      if(cs.kind == K_POLY && cs.unit)
        for(int i : cs.fidx) for(size_t k = 0; k < cs.col[i].size(); ++k)
        {
          double* b = &v[(size_t)(cs.rowptr[i] + (int)k) * BB];
          for(int a = 0; a < BB; ++a) b[a] = 0.0;
          if(cs.col[i][k] == i) for(int a = 0; a < B; ++a) b[a * B + a] = 1.0;
        }
      for(int i = 0; i < n; ++i)
      {
        double* d = &v[(size_t)cs.find(i, i) * BB];
        if(cs.dd)
        {
          double needs[3]; double mx = 0;
          for(int a = 0; a < B; ++a)
          {
            LD s = 0;
            for(size_t k = 0; k < cs.col[i].size(); ++k) { const double* b = &v[(size_t)(cs.rowptr[i] + (int)k) * BB]; for(int c2 = 0; c2 < B; ++c2) if(!(cs.col[i][k] == i && c2 == a)) s += fabsl((LD)b[a * B + c2]); }
            needs[a] = (double)(s * 1.125L + 0.25L); mx = std::max(mx, needs[a]);
          }
          if(cs.blkc == 1)
          {
            // circulant (commuting) family: one common diagonal value keeps the block inside the family
            double sign = d[0] < 0 ? -1.0 : 1.0; double cur = std::fabs(d[0]);
            double val = cur < mx ? narrow<DT>(sign * mx) : d[0];
            for(int a = 0; a < B; ++a) d[a * B + a] = val;
          }
          else for(int a = 0; a < B; ++a)
          {
            double sign = d[a * B + a] < 0 ? -1.0 : 1.0;
            if(std::fabs(d[a * B + a]) < needs[a]) d[a * B + a] = narrow<DT>(sign * needs[a]);
          }
          continue;
        }
        if(need_scalar_diag || B == 1) for(int a = 0; a < B; ++a) if(d[a * B + a] == 0.0) d[a * B + a] = double(1 + (i + a) % 3);
        if(B > 1)
        {
          // invertible with margin: |det| >= 1e-2 * prod(row max-norms); shift the diagonal until it is (a polynomial in the shift: <= B roots)
          for(int tries = 0; tries < 8; ++tries)
          {
            LD sc = 1; for(int a = 0; a < B; ++a) { LD r = 0; for(int c2 = 0; c2 < B; ++c2) r = std::max(r, fabsl((LD)d[a * B + c2])); sc *= r; }
            if(sc > 0 && fabsl(det_block(B, d)) >= 1e-2L * sc) break;
            for(int a = 0; a < B; ++a) d[a * B + a] = narrow<DT>(d[a * B + a] + (d[a * B + a] < 0 ? -1.0 : 1.0) * double(1 + tries));
          }
        }
      }
    }

    /// one block of values. blkcls: 0 general, 1 circulant (commuting family), 2 diagonal, 3 anti-diagonal-ish (zero scalar diagonal allowed)
    template<typename DT> void gen_block(Tape& t, int B, int valcls, int blkcls, bool is_diag, double* out)
    {
      const int BB = B * B;
      if(B == 1) { out[0] = narrow<DT>(t.real(valcls)); return; }
      switch(blkcls)
      {
      case 1: { double c[3]; for(int a = 0; a < B; ++a) c[a] = narrow<DT>(t.real(valcls)); for(int r = 0; r < B; ++r) for(int s = 0; s < B; ++s) out[r * B + s] = c[(s - r + B) % B]; break; }
      case 2: for(int a = 0; a < BB; ++a) out[a] = 0.0; for(int a = 0; a < B; ++a) out[a * B + a] = narrow<DT>(t.real(valcls)); break;
      case 3: for(int a = 0; a < BB; ++a) out[a] = narrow<DT>(t.real(valcls)); if(is_diag) for(int a = 0; a < B; ++a) out[a * B + a] = 0.0; break;
      default: for(int a = 0; a < BB; ++a) out[a] = narrow<DT>(t.real(valcls)); break;
      }
    }

    template<typename DT> std::vector<double> gen_values_version(Tape& t, const Case& cs, int valcls, int blkcls)
    {
      const int BB = cs.B * cs.B; std::vector<double> v((size_t)cs.nnzb() * BB);
      for(int i = 0; i < cs.n; ++i) for(size_t k = 0; k < cs.col[i].size(); ++k)
        gen_block<DT>(t, cs.B, valcls, blkcls, cs.col[i][k] == i, &v[(size_t)(cs.rowptr[i] + (int)k) * BB]);
      legalise<DT>(cs, v);
      return v;
    }

    inline std::string omega_class(double w) { if(w == 1.0) return "omega:1"; return w < 1.0 ? "omega:<1" : "omega:>1"; }

#ifdef C08_WITH_SCHWARZ
    /// single-rank Schwarz: Global::Vector / Global::Filter over a gate without neighbours; the operator is the local
    /// solver followed by the (global) correction filter.  Exposed as a SolverBase of the local vector type.
    template<typename DT, typename IT, typename F> struct SchwarzAdapter : public Solver::SolverBase<DenseVector<DT, IT>>
    {
      typedef DenseVector<DT, IT> V; typedef VectorMirror<DT, IT> Mir; typedef Global::Gate<V, Mir> Gate;
      typedef Global::Vector<V, Mir> GV; typedef Global::Filter<F, Mir> GF;
      Dist::Comm comm; Gate gate; GF gfilter; GV gin, gout; std::shared_ptr<Solver::SchwarzPrecond<GV, GF>> sw;
      SchwarzAdapter(std::shared_ptr<Solver::SolverBase<V>> local, const F& filt, Index n, bool ignore_status) :
        comm(Dist::Comm::world()), gate(comm), gfilter(filt.clone()), gin(&gate, n), gout(&gate, n)
      { sw = std::make_shared<Solver::SchwarzPrecond<GV, GF>>(local, gfilter, ignore_status); }
      virtual String name() const override { return "SchwarzAdapter"; }
      virtual void init_symbolic() override { sw->init_symbolic(); }
      virtual void init_numeric() override { sw->init_numeric(); }
      virtual void done_numeric() override { sw->done_numeric(); }
      virtual void done_symbolic() override { sw->done_symbolic(); }
      virtual Solver::Status apply(V& cor, const V& def) override
      {
        gin.local().copy(def); for(Index i = 0; i < cor.size(); ++i) gout.local().elements()[i] = std::numeric_limits<DT>::quiet_NaN();
        Solver::Status st = sw->apply(gout, gin);
        VF_CHECK(std::string((const char*)gin.local().elements(), def.size() * sizeof(DT)) == std::string((const char*)def.elements(), def.size() * sizeof(DT)), "schwarz: apply modified its (global) input vector");
        cor.copy(gout.local()); return st;
      }
    };
    template<typename DT, typename IT, int B, typename F> struct SchwarzWrap
    { static std::shared_ptr<Solver::SolverBase<typename Types<DT, IT, B>::V>> wrap(std::shared_ptr<Solver::SolverBase<typename Types<DT, IT, B>::V>> s, const F&, int, bool) { return s; } };
    template<typename DT, typename IT, typename F> struct SchwarzWrap<DT, IT, 1, F>
    { static std::shared_ptr<Solver::SolverBase<DenseVector<DT, IT>>> wrap(std::shared_ptr<Solver::SolverBase<DenseVector<DT, IT>>> s, const F& f, int n, bool ign) { return std::make_shared<SchwarzAdapter<DT, IT, F>>(s, f, Index(n), ign); } };
#endif

    // ------------------------------------------------------------------------------------------------------------
    // the property body
    // ------------------------------------------------------------------------------------------------------------
    struct Ref { EV x; bool informative = false; };

    template<typename DT, typename IT, int B> struct Runner
    {
      typedef Types<DT, IT, B> T; typedef typename T::M M; typedef typename T::V V;
      Tape& t; Ctx& c; Case cs; bool schwarz = false; bool schwarz_ignore = false;
      Runner(Tape& tt, Ctx& cc) : t(tt), c(cc) {}

      static LD tiny() { return 16.0L * (LD)std::numeric_limits<DT>::min(); }
      static constexpr LD K = 8.0L;

      // ------------------------------------------------------------------ decode
      void decode(int maxn, int force_kind)
      {
        cs.B = B;
        cs.kind = force_kind >= 0 ? force_kind : t.pick({3, 4, 4, 6, 3, 1, 1, 1});
        // known finding classes (see findings/C08.md): steer away when switched off
        gen_pattern(t, cs, maxn);
        const int n = cs.n;
        int valcls = t.pick({4, 2, 3}); static const char* vn[] = { "int", "dyadic", "real" }; cs.valcls_name = vn[valcls];
        cs.dd = t.pick({1, 1}) == 0;    // 0 on the tape -> diagonally dominant (benign)
        int blkcls = B == 1 ? 0 : t.pick({5, 2, 1, 1});
        if(B > 1 && (cs.kind == K_JACOBI || cs.kind == K_POLY || cs.dd) && blkcls == 3) blkcls = 0;
        if(B > 1 && cs.kind == K_ILU && c.excl("c08-ilu-bcsr-noncommuting")) blkcls = (blkcls == 2) ? 2 : 1;
        static const char* bn[] = { "general", "circulant", "diagonal", "zero-scalar-diag" }; cs.blkcls = bn[blkcls]; cs.blkc = blkcls;
        // parameters
        {
          int oc = t.pick({3, 2, 2, 3});
          int kk = t.range(1, 127);
          cs.omega = oc == 0 ? 1.0 : oc == 1 ? 0.5 : oc == 2 ? 1.5 : double(kk) / 64.0;
          if(cs.kind == K_SCALE && t.flag(1, 3)) cs.omega = double(t.range(1, 64)) / 8.0;
          if(B > 1 && cs.kind == K_SSOR && c.excl("c08-ssor-bcsr-scaling")) cs.omega = 1.0;
          // fill levels relative to the pattern: lmax = smallest level at which the factorisation is complete
          int lmax = 0;
          {
            const int BIGL = 1 << 28; std::vector<int> lev((size_t)(n * n), BIGL);
            for(int i = 0; i < n; ++i) for(int j : cs.col[i]) lev[(size_t)(i * n + j)] = 0;
            for(int i = 1; i < n; ++i) for(int k = 0; k < i; ++k) { if(lev[(size_t)(i * n + k)] >= BIGL) continue; for(int j = k + 1; j < n; ++j) { if(lev[(size_t)(k * n + j)] >= BIGL) continue; int l = lev[(size_t)(i * n + k)] + lev[(size_t)(k * n + j)] + 1; if(l < lev[(size_t)(i * n + j)]) lev[(size_t)(i * n + j)] = l; } }
            for(int x : lev) if(x < BIGL) lmax = std::max(lmax, x);
          }
          int pc = t.pick({3, 3, 2, 1});   // 0 / strictly between 0 and complete (if any) / exactly complete / n
          cs.p = pc == 0 ? 0 : pc == 1 ? t.range(1, std::max(1, lmax - 1)) : pc == 2 ? lmax : n;
          cs.m = t.range(0, 6);
        }
        cs.unit = t.flag(1, 3);
        if(cs.unit) { for(int i = 0; i < n; ++i) if(t.flag(1, 4)) cs.fidx.push_back(i); if(cs.fidx.empty()) cs.fidx.push_back(t.range(0, n - 1)); }
        cs.ver.push_back(gen_values_version<DT>(t, cs, valcls, blkcls));
        if(cs.kind == K_DIAG) { std::vector<double> dv((size_t)cs.N); for(auto& x : dv) x = narrow<DT>(t.real(valcls)); cs.dver.push_back(dv); }

        // history
        int nsteps = t.sized(0, 14, 3);
        int state = 0; bool stale = false; int applies = 0; int version = 0;
        auto new_vec = [&](int vcls) { std::vector<double> v((size_t)cs.N); for(auto& x : v) x = narrow<DT>(t.real(vcls)); if(cs.kind == K_POLY && cs.unit) for(int i : cs.fidx) for(int a = 0; a < B; ++a) v[(size_t)(i * B + a)] = 0.0; cs.vecs.push_back(v); return (int)cs.vecs.size() - 1; };
        auto push = [&](int op) { Step s; s.op = op; cs.steps.push_back(s); return &cs.steps.back(); };
        auto do_apply = [&]() { Step* s = push(O_APPLY); s->vec = new_vec(t.pick({3, 2, 3, 1})); s->version = version; ++applies; };
        auto do_lincomb = [&]()
        {
          // exact linear combination in DT: dyadic inputs (k/16, |k| <= 128) and alpha = k/4 (|k| <= 16)
          Step* s = push(O_LINCOMB); int a = new_vec(1); int b = new_vec(1); (void)b;
          int ka = t.range(0, 32); double alpha = double(ka - 16) / 4.0; if(alpha == 0.0) alpha = 2.0;
          std::vector<double> v((size_t)cs.N); for(int i = 0; i < cs.N; ++i) v[(size_t)i] = alpha * cs.vecs[(size_t)a][(size_t)i] + cs.vecs[(size_t)a + 1][(size_t)i];
          cs.vecs.push_back(v); s->vec = a; s->alpha = alpha; s->version = version; applies += 3;
        };
        auto do_update = [&]()
        {
          Step* s = push(O_UPDATE); std::vector<double> v = cs.ver.back(); const int BB = B * B;
          int uk = t.pick({3, 3, 2, 2});
          switch(uk)
          {
          case 0: { double f = double(t.range(0, 14) + 2) / 4.0; if(t.flag(1, 4)) f = -f; for(auto& x : v) x = narrow<DT>(x * f); s->upd = "scale:" + std::to_string(f); break; }
          case 1: v = gen_values_version<DT>(t, cs, valcls, blkcls); s->upd = "replace"; break;
          case 2: { int i = t.range(0, n - 1); double* d = &v[(size_t)cs.find(i, i) * BB]; double f = double(t.range(0, 6) + 2); for(int a = 0; a < BB; ++a) d[a] = narrow<DT>(d[a] * f); s->upd = "diag-entry:" + std::to_string(i) + "*" + std::to_string(f); break; }
          default: { int e = t.range(0, (int)cs.nnzb() - 1); double* d = &v[(size_t)e * BB]; const double add = double(t.range(0, 8)) - 3.5;
            // stay inside the block family (circulant + c*ones is circulant; diagonal blocks: shift the diagonal only)
            if(cs.blkc == 2) { for(int a = 0; a < B; ++a) d[a * B + a] = narrow<DT>(d[a * B + a] + add); }
            else for(int a = 0; a < BB; ++a) d[a] = narrow<DT>(d[a] + add); s->upd = "entry:" + std::to_string(e) + "+" + std::to_string(add); break; }
          }
          legalise<DT>(cs, v);
          cs.ver.push_back(v);
          if(cs.kind == K_DIAG) { std::vector<double> dv = cs.dver.back(); for(auto& x : dv) x = narrow<DT>(x * 1.5 + 0.25); cs.dver.push_back(dv); }
          ++version; s->version = version; stale = true;
        };
        for(int k = 0; k < nsteps; ++k)
        {
          if(state == 0) { if(t.pick({2, 1}) == 0) { push(O_INIT); state = 2; } else { push(O_INIT_SYM); state = 1; } stale = false; }
          else if(state == 1) { if(t.pick({5, 1}) == 0) { push(O_INIT_NUM); state = 2; stale = false; } else { push(O_DONE_SYM); state = 0; } }
          else if(!stale)
          {
            switch(t.pick({5, 3, 2, 1, 1})) {
            case 0: do_apply(); break; case 1: do_update(); break; case 2: do_lincomb(); break;
            case 3: push(O_DONE_NUM); state = 1; break; default: push(O_DONE); state = 0; break; }
          }
          else
          {
            switch(t.pick({6, 2, 1, 1})) {
            case 0: push(O_INIT_NUM); stale = false; break;
            case 1: push(O_DONE_NUM); state = 1; break;
            case 2: { Step* s = push(O_STALE_APPLY); s->vec = new_vec(0); s->version = version; break; }
            default: push(O_DONE); state = 0; break; }
          }
        }
        // make sure at least one checked apply happens, then close the life cycle
        if(applies == 0)
        {
          if(state == 0) { push(O_INIT); state = 2; stale = false; }
          if(state == 1) { push(O_INIT_NUM); state = 2; stale = false; }
          if(stale) { push(O_INIT_NUM); stale = false; }
          do_apply();
        }
        if(state == 2) { if(t.flag()) { push(O_DONE_NUM); push(O_DONE_SYM); } else push(O_DONE); }
        else if(state == 1) push(O_DONE_SYM);
      }

      // ------------------------------------------------------------------ oracle for one input vector / version
      struct VersionOracle { Dense D; std::vector<char> P, Pfull; bool complete = false; typename Oracle::Factor F; bool have_factor = false; };
      std::vector<VersionOracle> vo;

      void prepare_versions()
      {
        vo.resize(cs.ver.size());
        for(size_t v = 0; v < cs.ver.size(); ++v)
        {
          vo[v].D = dense_of_case(cs, (int)v);
          if(cs.kind == K_ILU)
          {
            Oracle o(vo[v].D, B);
            vo[v].P = o.ilu_pattern(cs.p); vo[v].Pfull = o.ilu_pattern(cs.n + 1);
            vo[v].complete = (vo[v].P == vo[v].Pfull);
            vo[v].F = o.ilu_factor(vo[v].P); vo[v].have_factor = true;
          }
        }
      }

      EV reference(const std::vector<double>& d, int version) const
      {
        const VersionOracle& w = vo[(size_t)version]; Oracle o(w.D, B);
        EV dv((size_t)cs.N); for(int i = 0; i < cs.N; ++i) dv[(size_t)i] = EB((LD)d[(size_t)i]);
        EV x;
        switch(cs.kind)
        {
        case K_JACOBI: x = o.jacobi(dv, (LD)DT(cs.omega)); break;
        case K_SOR: x = o.sor(dv, (LD)DT(cs.omega)); break;
        case K_SSOR: x = o.ssor(dv, (LD)DT(cs.omega)); break;
        case K_ILU: x = o.ilu_solve(w.F, dv); break;
        case K_POLY: x = o.poly(dv, (LD)DT(cs.omega), cs.m); break;
        case K_SCALE: x.resize((size_t)cs.N); for(int i = 0; i < cs.N; ++i) x[(size_t)i] = EB((LD)DT(cs.omega)) * dv[(size_t)i]; break;
        case K_DIAG: x.resize((size_t)cs.N); for(int i = 0; i < cs.N; ++i) x[(size_t)i] = EB((LD)cs.dver[(size_t)version][(size_t)i]) * dv[(size_t)i]; break;
        default: x = o.matvec(dv); break;
        }
        // correction filter: unit filter sets the filtered components to zero
        if(cs.unit) for(int i : cs.fidx) for(int a = 0; a < B; ++a) x[(size_t)(i * B + a)] = EB(0);
        return x;
      }
      static bool informative(const EV& x)
      {
        LD mx = 0, me = 0; for(auto& e : x) { if(!e.ok()) return false; mx = std::max(mx, fabsl(e.v)); me = std::max(me, e.e); }
        return mx > 0 && K * me <= 1e-3L * mx;
      }

      // ------------------------------------------------------------------ feat3 side
      void compare(const char* what, int step, const V& got, const EV& ref) const
      {
        const DT* g = T::vp(got);
        std::vector<char> masked((size_t)cs.N, 0); if(cs.unit) for(int i : cs.fidx) for(int a = 0; a < B; ++a) masked[(size_t)(i * B + a)] = 1;
        for(int i = 0; i < cs.N; ++i)
        {
          const LD gv = (LD)g[i];
          if(masked[(size_t)i]) { VF_CHECK(g[i] == DT(0), kind_name[cs.kind] << " step " << step << " " << what << ": filtered entry " << i << " is " << (double)gv << " (correction filter must zero it)"); continue; }
          if(!ref[(size_t)i].ok()) continue;   // breakdown / overflow range: no claim
          const LD tol = K * ref[(size_t)i].e + tiny();
          VF_CHECK(std::isfinite((double)gv) && fabsl(gv - ref[(size_t)i].v) <= tol, kind_name[cs.kind] << " step " << step << " " << what << ": entry " << i << " got " << (double)gv << " expected " << (double)ref[(size_t)i].v << " tol " << (double)tol);
        }
      }

      template<typename F> std::shared_ptr<Solver::SolverBase<V>> make(const M& A, const F& filt, const V& diag) const
      {
        switch(cs.kind)
        {
        case K_JACOBI: return Solver::new_jacobi_precond(A, filt, DT(cs.omega));
        case K_SOR: return Solver::new_sor_precond(PreferredBackend::generic, A, filt, DT(cs.omega));
        case K_SSOR: return Solver::new_ssor_precond(PreferredBackend::generic, A, filt, DT(cs.omega));
        case K_ILU: return Solver::new_ilu_precond(PreferredBackend::generic, A, filt, cs.p);
        case K_POLY: return Solver::new_polynomial_precond(A, filt, Index(cs.m), DT(cs.omega));
        case K_SCALE: return Solver::new_scale_precond(filt, DT(cs.omega));
        case K_DIAG: return Solver::new_diagonal_precond(diag, filt);
        default: return Solver::new_matrix_precond(A, filt);
        }
      }

      static std::string vbytes(const V& v, int N) { return std::string((const char*)T::vp(v), (size_t)N * sizeof(DT)); }

      template<typename F> void execute(M& A, const F& filt)
      {
        V diag(Index(cs.n)); if(cs.kind == K_DIAG) for(int i = 0; i < cs.N; ++i) T::vp(diag)[i] = DT(cs.dver[0][(size_t)i]); else for(int i = 0; i < cs.N; ++i) T::vp(diag)[i] = DT(1);
        auto solver = make(A, filt, diag);
#ifdef C08_WITH_SCHWARZ
        if(schwarz) solver = SchwarzWrap<DT, IT, B, F>::wrap(solver, filt, cs.n, schwarz_ignore);
#endif
        V vin(Index(cs.n)), vout(Index(cs.n));
        auto apply_one = [&](const char* what, int step, int vec, int version, bool check) -> std::vector<LD>
        {
          const std::vector<double>& d = cs.vecs[(size_t)vec];
          for(int i = 0; i < cs.N; ++i) { T::vp(vin)[i] = DT(d[(size_t)i]); T::vp(vout)[i] = std::numeric_limits<DT>::quiet_NaN(); }
          const std::string a0 = snapshot(A), x0 = vbytes(vin, cs.N);
          Solver::Status st = solver->apply(vout, vin);
          std::vector<LD> res((size_t)cs.N); for(int i = 0; i < cs.N; ++i) res[(size_t)i] = (LD)T::vp(vout)[i];
          if(!check) return res;
          VF_CHECK(st == Solver::Status::success, kind_name[cs.kind] << " step " << step << " " << what << ": apply returned status " << int(st));
          VF_CHECK(snapshot(A) == a0, kind_name[cs.kind] << " step " << step << " " << what << ": apply modified the matrix");
          VF_CHECK(vbytes(vin, cs.N) == x0, kind_name[cs.kind] << " step " << step << " " << what << ": apply modified its input vector");
          compare(what, step, vout, reference(d, version));
          return res;
        };
        int step = 0;
        for(const Step& s : cs.steps)
        {
          switch(s.op)
          {
          case O_INIT_SYM: solver->init_symbolic(); break;
          case O_INIT_NUM: solver->init_numeric(); break;
          case O_DONE_NUM: solver->done_numeric(); break;
          case O_DONE_SYM: solver->done_symbolic(); break;
          case O_INIT: solver->init(); break;
          case O_DONE: solver->done(); break;
          case O_UPDATE:
          {
            // the caller re-assembles into the same layout
            const std::vector<double>& v = cs.ver[(size_t)s.version]; DT* p = T::mp(A);
            for(size_t q = 0; q < v.size(); ++q) p[q] = DT(v[q]);
            if(cs.kind == K_DIAG) for(int i = 0; i < cs.N; ++i) T::vp(diag)[i] = DT(cs.dver[(size_t)s.version][(size_t)i]);
            Dense chk = dense_of(A); VF_CHECK(chk.a == vo[(size_t)s.version].D.a, "harness: matrix arrays do not hold the updated values");
            break;
          }
          case O_APPLY: apply_one("apply", step, s.vec, s.version, true); break;
          case O_STALE_APPLY: apply_one("stale", step, s.vec, s.version, false); break;   // no claim without init_numeric
          case O_LINCOMB:
          {
            std::vector<LD> r1 = apply_one("lincomb-d1", step, s.vec, s.version, true);
            std::vector<LD> r2 = apply_one("lincomb-d2", step, s.vec + 1, s.version, true);
            std::vector<LD> r3 = apply_one("lincomb-d3", step, s.vec + 2, s.version, true);
            EV e1 = reference(cs.vecs[(size_t)s.vec], s.version), e2 = reference(cs.vecs[(size_t)s.vec + 1], s.version), e3 = reference(cs.vecs[(size_t)s.vec + 2], s.version);
            for(int i = 0; i < cs.N; ++i)
            {
              if(!e1[(size_t)i].ok() || !e2[(size_t)i].ok() || !e3[(size_t)i].ok()) continue;
              const LD lin = (LD)s.alpha * r1[(size_t)i] + r2[(size_t)i];
              const LD tol = K * (fabsl((LD)s.alpha) * e1[(size_t)i].e + e2[(size_t)i].e + e3[(size_t)i].e) + 4 * tiny();
              VF_CHECK(fabsl(r3[(size_t)i] - lin) <= tol, kind_name[cs.kind] << " step " << step << ": not linear in the input: M(a*d1+d2)[" << i << "]=" << (double)r3[(size_t)i] << " a*M(d1)+M(d2)=" << (double)lin << " tol " << (double)tol);
            }
            break;
          }
          }
          ++step;
        }
        if(probe_version >= 0) ilu_probe(A, filt);
      }

      // ------------------------------------------------------------------ ILU: (LU)_ij == A_ij on the level-p pattern, by probing
      int probe_version = -1;
      template<typename F> void ilu_probe(M& A, const F& filt)
      {
        // fresh solver on the final matrix values; M^-1 columns by unit vectors, inverted in long double
        const VersionOracle& w = vo[(size_t)probe_version]; Oracle o(w.D, B); const int N = cs.N;
        V diag(Index(cs.n));
        auto solver = make(A, filt, diag); solver->init();
        V vin(Index(cs.n)), vout(Index(cs.n));
        std::vector<LD> Minv((size_t)(N * N)), Eb((size_t)(N * N));
        for(int j = 0; j < N; ++j)
        {
          EV e((size_t)N); for(int i = 0; i < N; ++i) { T::vp(vin)[i] = DT(i == j ? 1 : 0); T::vp(vout)[i] = std::numeric_limits<DT>::quiet_NaN(); e[(size_t)i] = EB(i == j ? 1.0L : 0.0L); }
          solver->apply(vout, vin);
          EV ref = o.ilu_solve(w.F, e);
          for(int i = 0; i < N; ++i) { if(!ref[(size_t)i].ok()) { solver->done(); return; } Minv[(size_t)(i * N + j)] = (LD)T::vp(vout)[i]; Eb[(size_t)(i * N + j)] = K * ref[(size_t)i].e + tiny(); }
          compare("probe-unit-vector", j, vout, ref);
        }
        solver->done();
        std::vector<LD> Mref = o.ilu_product(w.F), Mhat;
        for(LD x : Minv) if(!std::isfinite((double)x)) VF_FAIL("mismatch:ilu probe: M^-1 has a non-finite entry although the reference factorisation is regular");
        // first-order perturbation: Mhat - M = -M E M; require ||M| Eb|_inf small, otherwise no claim
        std::vector<LD> ME((size_t)(N * N), 0.0L), T2((size_t)(N * N), 0.0L);
        for(int i = 0; i < N; ++i) for(int q = 0; q < N; ++q) { LD m = fabsl(Mref[(size_t)(i * N + q)]); if(m == 0) continue; for(int j = 0; j < N; ++j) ME[(size_t)(i * N + j)] += m * Eb[(size_t)(q * N + j)]; }
        LD nrm = 0; for(int i = 0; i < N; ++i) { LD s = 0; for(int j = 0; j < N; ++j) s += ME[(size_t)(i * N + j)]; nrm = std::max(nrm, s); }
        if(!(nrm < 1e-2L)) return;
        if(!gj_inverse(N, Minv, Mhat)) VF_FAIL("mismatch:ilu probe: M^-1 obtained from unit vectors is singular");
        for(int i = 0; i < N; ++i) for(int q = 0; q < N; ++q) { LD m = ME[(size_t)(i * N + q)]; if(m == 0) continue; for(int j = 0; j < N; ++j) T2[(size_t)(i * N + j)] += m * fabsl(Mref[(size_t)(q * N + j)]); }
        // higher-order terms of (Minv + E)^-1 = M - M E M + M E M E M - ...: with Y = (|M|E) T2 and rho = || |M|E ||_inf
        // sum_{k>=2} ((|M|E)^(k-1) T2)_ij <= Y_ij + rho/(1-rho) max_q Y_qj
        std::vector<LD> Y((size_t)(N * N), 0.0L), Ycol((size_t)N, 0.0L);
        for(int i = 0; i < N; ++i) for(int q = 0; q < N; ++q) { LD m = ME[(size_t)(i * N + q)]; if(m == 0) continue; for(int j = 0; j < N; ++j) Y[(size_t)(i * N + j)] += m * T2[(size_t)(q * N + j)]; }
        for(int i = 0; i < N; ++i) for(int j = 0; j < N; ++j) Ycol[(size_t)j] = std::max(Ycol[(size_t)j], Y[(size_t)(i * N + j)]);
        for(int i = 0; i < N; ++i) for(int j = 0; j < N; ++j) T2[(size_t)(i * N + j)] += Y[(size_t)(i * N + j)] + nrm / (1 - nrm) * Ycol[(size_t)j];
        // forward error of the long-double inversion itself: |dX| <= c N u_ld (|X| |Minv| |X|)  (matters for ill-conditioned M)
        std::vector<LD> XA((size_t)(N * N), 0.0L), T3((size_t)(N * N), 0.0L); const LD uld = std::numeric_limits<LD>::epsilon();
        for(int i = 0; i < N; ++i) for(int q = 0; q < N; ++q) { LD m = fabsl(Mhat[(size_t)(i * N + q)]); if(m == 0) continue; for(int j = 0; j < N; ++j) XA[(size_t)(i * N + j)] += m * fabsl(Minv[(size_t)(q * N + j)]); }
        for(int i = 0; i < N; ++i) for(int q = 0; q < N; ++q) { LD m = XA[(size_t)(i * N + q)]; if(m == 0) continue; for(int j = 0; j < N; ++j) T3[(size_t)(i * N + j)] += m * fabsl(Mhat[(size_t)(q * N + j)]); }
        for(int bi = 0; bi < cs.n; ++bi) for(int bj = 0; bj < cs.n; ++bj)
        {
          if(!w.P[(size_t)(bi * cs.n + bj)]) continue;
          for(int a = 0; a < B; ++a) for(int b = 0; b < B; ++b)
          {
            const int r = bi * B + a, s = bj * B + b; const LD aij = w.D(r, s);
            const LD tol = 2 * T2[(size_t)(r * N + s)] + 64.0L * N * uld * T3[(size_t)(r * N + s)] + fabsl(Mref[(size_t)(r * N + s)] - aij) + 1e-15L * (1 + fabsl(aij));
            VF_CHECK(fabsl(Mhat[(size_t)(r * N + s)] - aij) <= tol, "ilu(" << cs.p << ") probe: (LU)[" << r << "," << s << "]=" << (double)Mhat[(size_t)(r * N + s)] << " but A=" << (double)aij << " on the level-p pattern, diff " << (double)fabsl(Mhat[(size_t)(r * N + s)] - aij) << " tol " << (double)tol << " (first-order part " << (double)T2[(size_t)(r * N + s)] << ", |M|E norm " << (double)nrm << ")");
          }
        }
      }

      // ------------------------------------------------------------------ driver
      void run(int maxn, int force_kind = -1)
      {
        set_env<DT>();
        decode(maxn, force_kind);
        const int n = cs.n;
        // description
        c.op = kind_name[cs.kind];
        J d = c.desc; d.set("kind", kind_name[cs.kind]); if(schwarz) d.set("wrapped", "schwarz(single rank)"); d.set("dt", TypeName<DT>::n()); d.set("it", TypeName<IT>::n()); d.set("block", B); d.set("n", n);
        d.set("pattern", cs.patcls); d.set("values", cs.valcls_name); if(B > 1) d.set("blocks", cs.blkcls); d.set("dd", cs.dd);
        if(cs.kind != K_ILU && cs.kind != K_DIAG && cs.kind != K_MATRIX) d.set("omega", cs.omega);
        if(cs.kind == K_ILU) d.set("p", cs.p); if(cs.kind == K_POLY) d.set("m", cs.m);
        d.set("filter", cs.unit ? J(cs.fidx) : J("none"));
        { J e = J::arr(); for(int i = 0; i < n; ++i) for(size_t k = 0; k < cs.col[i].size(); ++k) { J q = J::arr(); q.add(i); q.add(cs.col[i][k]); for(int a = 0; a < B * B; ++a) q.add(cs.ver[0][(size_t)(cs.rowptr[i] + (int)k) * B * B + a]); e.add(q); } d.set("A", e); }
        if(cs.kind == K_DIAG) d.set("diag", J(cs.dver[0]));
        { J s = J::arr(); for(const Step& st : cs.steps) { J q = J::obj(); q.set("op", op_name[st.op]); if(st.vec >= 0) { q.set("d", J(cs.vecs[(size_t)st.vec])); } if(st.op == O_LINCOMB) { q.set("alpha", st.alpha); q.set("d2", J(cs.vecs[(size_t)st.vec + 1])); } if(st.op == O_UPDATE) { q.set("how", st.upd); q.set("values", J(cs.ver[(size_t)st.version])); } s.add(q); } d.set("steps", s); }
        c.desc = d;

        // oracle for every checked apply (before running the code under test)
        prepare_versions();
        int n_inf = 0, n_chk = 0, n_breakdown = 0; bool upd_then_apply = false, cycles = false, lincomb = false; int seen_update = 0, ninit = 0;
        for(const Step& s : cs.steps)
        {
          if(s.op == O_UPDATE) seen_update = 1;
          if(s.op == O_INIT || s.op == O_INIT_SYM) { if(++ninit > 1) cycles = true; }
          if(s.op == O_APPLY || s.op == O_LINCOMB)
          {
            const int cnt = s.op == O_LINCOMB ? 3 : 1; if(s.op == O_LINCOMB) lincomb = true;
            for(int q = 0; q < cnt; ++q)
            {
              EV r = reference(cs.vecs[(size_t)(s.vec + q)], s.version); ++n_chk;
              bool nz = false; for(double x : cs.vecs[(size_t)(s.vec + q)]) nz = nz || x != 0.0;
              if(informative(r) && nz) ++n_inf; bool bd = false; for(auto& e : r) if(!e.ok()) bd = true; if(bd) ++n_breakdown;
            }
            if(seen_update && s.version > 0) upd_then_apply = true;
          }
        }
        bool offdiag = false; { const Dense& D0 = vo[0].D; for(int r = 0; r < cs.N && !offdiag; ++r) for(int q = 0; q < cs.N; ++q) if(r / B != q / B && D0(r, q) != 0) { offdiag = true; break; } }
        const bool needs_offdiag = (cs.kind == K_SOR || cs.kind == K_SSOR || cs.kind == K_ILU || cs.kind == K_POLY || cs.kind == K_MATRIX);
        c.nontrivial = n_inf > 0 && cs.N >= 2 && (!needs_offdiag || offdiag);
        // labels
        if(schwarz) c.label(std::string("schwarz:local-") + kind_name[cs.kind]);
        c.label(std::string("kind:") + kind_name[cs.kind]); c.label(std::string("dt:") + TypeName<DT>::n()); c.label(std::string("it:") + TypeName<IT>::n());
        c.label("block:" + std::to_string(B)); c.label("pat:" + cs.patcls); c.label("val:" + cs.valcls_name); if(B > 1) c.label("blk:" + cs.blkcls);
        c.label(cs.dd ? "matrix:diag-dominant" : "matrix:general"); c.label(cs.unit ? "filter:unit" : "filter:none");
        c.label(n == 1 ? "n:1" : n <= 4 ? "n:2-4" : n <= 10 ? "n:5-10" : "n:>10");
        if(cs.kind != K_ILU && cs.kind != K_DIAG && cs.kind != K_MATRIX) c.label(omega_class(cs.omega));
        if(cs.kind == K_ILU) { c.label(cs.p == 0 ? "ilu:p=0" : cs.p >= n - 1 ? "ilu:p>=n-1" : "ilu:0<p<n-1"); c.label(vo[0].complete ? "ilu:complete" : "ilu:incomplete"); bool fill = vo[0].P != Oracle(vo[0].D, B).ilu_pattern(0); c.label(fill ? "ilu:with-fill" : "ilu:no-fill"); }
        if(cs.kind == K_POLY) c.label("poly:m=" + std::to_string(cs.m));
        if(upd_then_apply) c.label("hist:update-reinit-apply"); if(cycles) c.label("hist:done-init-cycle"); if(lincomb) c.label("hist:lincomb");
        for(const Step& s : cs.steps) if(s.op == O_STALE_APPLY) { c.label("hist:stale-apply-unchecked"); break; }
        if(n_breakdown) c.label("oracle:breakdown-no-claim"); c.label(n_inf == n_chk ? "oracle:all-informative" : n_inf ? "oracle:some-informative" : "oracle:uninformative");

        // ILU probe: none filter, small systems, regular reference
        if(cs.kind == K_ILU && !cs.unit && cs.N <= 12 && t.flag(1, 2)) { probe_version = (int)cs.ver.size() - 1; c.label("ilu:probe"); }

        // build the feat3 objects (harness side) and check they represent the description
        M A = build_matrix<DT, IT, B>(cs);
        { Dense chk = dense_of(A); VF_CHECK(chk.r == cs.N && chk.c == cs.N && chk.a == vo[0].D.a && chk.stored == vo[0].D.stored, "harness: constructed matrix differs from its description"); }
        c.announce();
        if(cs.unit) { typename T::FU f((Index)n); for(int i : cs.fidx) T::fadd(f, i); execute(A, f); }
        else { typename T::FN f; execute(A, f); }

        // complete factorisation: apply == A^-1 (checked on the last version with a fresh solver)
        if(cs.kind == K_ILU && vo.back().complete) complete_check(A);
      }

      void complete_check(M& A)
      {
        const VersionOracle& w = vo.back(); Oracle o(w.D, B); const int N = cs.N;
        // input: last generated vector
        const std::vector<double>& d = cs.vecs.back();
        EV dv((size_t)N); for(int i = 0; i < N; ++i) dv[(size_t)i] = EB((LD)d[(size_t)i]);
        EV ref = o.ilu_solve(w.F, dv);
        std::vector<LD> a((size_t)(N * N)), b((size_t)N); for(int i = 0; i < N * N; ++i) a[(size_t)i] = w.D.a[(size_t)i]; for(int i = 0; i < N; ++i) b[(size_t)i] = (LD)d[(size_t)i];
        if(!gepp_solve(N, a, b)) return;     // singular A: no claim
        typename T::FN f; V diag(Index(cs.n)); auto solver = make(A, f, diag); solver->init();
        V vin(Index(cs.n)), vout(Index(cs.n)); for(int i = 0; i < N; ++i) { T::vp(vin)[i] = DT(d[(size_t)i]); T::vp(vout)[i] = std::numeric_limits<DT>::quiet_NaN(); }
        solver->apply(vout, vin); solver->done();
        for(int i = 0; i < N; ++i)
        {
          if(!ref[(size_t)i].ok()) continue;
          // A^-1 d from pivoted elimination equals the unpivoted complete factorisation in exact arithmetic
          const LD tol = K * ref[(size_t)i].e + tiny() + 2 * fabsl(ref[(size_t)i].v - b[(size_t)i]);
          const LD gv = (LD)T::vp(vout)[i];
          VF_CHECK(std::isfinite((double)gv) && fabsl(gv - b[(size_t)i]) <= tol, "ilu(" << cs.p << ") is complete but apply != A^-1 d: entry " << i << " got " << (double)gv << " expected " << (double)b[(size_t)i] << " tol " << (double)tol);
        }
      }
    };
  } // namespace c08
} // namespace vf
