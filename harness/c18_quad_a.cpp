// C18 - quad_a: instantiations of c18::run_case for Shape::Hypercube<2> (see c18_core.hpp)
#include "c18_elems.hpp"
#include "c18_parts.hpp"
namespace c18 {
void quad_a(vf::Tape& t, vf::Ctx& c, int idx, bool flt, bool big)
{
  typedef Shape::Hypercube<2> S; (void)flt;
  switch(idx)
  {
  case 0: if(flt) run_case<S, EL1, float>(t, c, M_L1, big); else run_case<S, EL1, double>(t, c, M_L1, big); break;
  case 1: if(flt) run_case<S, EL2, float>(t, c, M_L2, big); else run_case<S, EL2, double>(t, c, M_L2, big); break;
  case 2: run_case<S, EL3, double>(t, c, M_L3, big); break;
  case 3: run_case<S, EB2, double>(t, c, M_B2, big); break;
  default: throw vf::Discard{"bad element index"};
  }
}
}
