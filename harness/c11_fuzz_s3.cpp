// C11 libFuzzer target fuzz_mesh_s3 (one TU per shape)
#include "common/c11_fuzz.hpp"
namespace c11 { void fuzz_s3(const uint8_t* d, size_t n) { fuzz_mesh<MeshS3>(d, n); } }
