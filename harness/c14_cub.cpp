// C14: cubature exactness - plain names (FEAT_CUBATURE_TENSOR_PREFIX / FEAT_CUBATURE_SCALAR_PREFIX not defined, the default build)
#include "common/c14_core.hpp"
int main(int argc, char** argv) { return c14::run_main(argc, argv, ""); }
