// C16: blocked bilinear operators on Hypercube<3> meshes (see c16_blocked.hpp)
#include "c16_blocked.hpp"
namespace c16 { template void blocked_pairs<Shape::Hypercube<3>>(vf::Tape&, vf::Ctx&, const RawMesh&, int); }
