// C12 targets for shape Tria (the mesh generator mg::gen_node<Tria> is instantiated in c10_gen_tria.cpp)
#include "common/c12_core.hpp"
extern template mg::Loaded<mg::Tria> mg::gen_node<mg::Tria>(vf::Tape&, vf::Ctx&, const mg::GenOpts&, mg::GenInfo&);
void c12_register_tria(std::vector<vf::Target>& tg) { c12::register_shape<mg::Tria>(tg); }
