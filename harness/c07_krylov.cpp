// C07, group "krylov": BiCGStab, BiCGStab(l), FGMRES(k), GMRES(k) on local CSR systems (NoneFilter / UnitFilter)
#include "common/c07_case.hpp"
#include "c07_lucky.hpp"
#include "c07_config.hpp"
using namespace c07;

static int maxn() { const char* e = getenv("C07_MAXN"); int v = e ? atoi(e) : 60; return v < 3 ? 60 : v; }

int main(int argc, char** argv)
{
  FEAT::Runtime::ScopeGuard guard(argc, argv);
  std::vector<Target> tg;
  tg.push_back({"krylov", [](Tape& t, Ctx& c) { target<G_KRYLOV, double, LocalBE>(t, c, {K_BICGSTAB, K_BICGSTABL, K_FGMRES, K_GMRES}, {3, 3, 2, 2}, maxn()); }, 96, 2, 60000});
  // thorough tier: same decoder, systems up to n = 120
  tg.push_back({"krylov_big", [](Tape& t, Ctx& c) { target<G_KRYLOV, double, LocalBE>(t, c, {K_BICGSTAB, K_BICGSTABL, K_FGMRES, K_GMRES}, {3, 3, 2, 2}, 120); }, 96, 3, 120000});
  // exact (lucky) breakdown after one Krylov step: GMRES / FGMRES / IDR(s) must report success with the exact solution
  tg.push_back({"lucky", c07::lucky_case, 48, 1, 30000});
  // limits configured through a PropertyMap section == limits configured through the setters
  tg.push_back({"config", c07::config_case, 48, 1, 30000});
  // the practice of tutorial_06_global: unit filter, system matrix left unfiltered, convergence claimed (the solver's own filter_def/filter_cor calls carry the constraints)
  tg.push_back({"krylov_unfilt", [](Tape& t, Ctx& c) { c07::force_bits = 7; target<G_KRYLOV, double, LocalBE>(t, c, {K_BICGSTAB, K_BICGSTABL, K_FGMRES, K_GMRES}, {3, 3, 2, 2}, maxn()); c07::force_bits = 0; }, 96, 2, 60000});
  return main_impl(argc, argv, tg);
}
