#!/usr/bin/env python3
"""C20 libFuzzer campaign wrapper (run key "script" of props/C20.json), same contract as vf::main_impl.

search: runs the libFuzzer build of c20_life.cpp (history decoder on coverage-guided bytes, ASan+UBSan, in-process) on a fresh
        empty corpus with -seed derived from --seed and -runs=<cases>; a crash-* artifact is re-run 3x and wrapped as a
        base64 JSON replay. evaluations = executed units; distinct_nontrivial = corpus files at the end of the campaign
        (distinct inputs that reached new coverage) whose history used >= 2 command kinds is not separable there, so the
        count is min(corpus files, non-trivial executions reported by the target's side file) - a conservative measure.
replay: --replay file.json
"""
import sys, os, json, argparse, subprocess, shutil, base64, hashlib, re, tempfile, time


def symptom_of(err, rc):
    m = re.search(r"C20-FAIL (.*)", err)
    if m:
        return m.group(1).strip()[:400]
    m = re.search(r"ERROR: AddressSanitizer: ([^\n]*)", err)
    if m:
        kind = m.group(1).split(" on ")[0].strip()
        fr = re.search(r"#\d+ 0x[0-9a-f]+ in ([^\n]*?/kernel/[^\n ]*)", err)
        return "asan:" + kind + ((" in " + re.sub(r"/[^ ]*/kernel/", "kernel/", re.sub(r"^.* in ", "", fr.group(0)))) if fr else "")
    m = re.search(r"ERROR: LeakSanitizer: ([^\n]*)", err)
    if m:
        return "leak:" + m.group(1).strip()
    m = re.search(r"([^\n]*runtime error:[^\n]*)", err)
    if m:
        return "ubsan:" + m.group(1).strip()[-300:]
    if "FATAL ERROR" in err:
        mm = re.search(r"FATAL ERROR: *([^\n]*)", err)
        msg = mm.group(1).strip()[:200] if mm else ""
        for key in ("Expression", "Function"):
            mm = re.search(key + r"\.*: *([^\n]*)", err)
            if mm:
                msg += " | " + mm.group(1).strip()[:160]
        return "abort:" + msg
    m = re.search(r"ERROR: libFuzzer: ([^\n]*)", err)
    if m:
        return "crash:" + m.group(1).strip()
    return "exit:%s" % rc


def run_one(binp, path, env):
    try:
        p = subprocess.run([binp, path, "-timeout=60"], stdout=subprocess.PIPE, stderr=subprocess.PIPE, env=env, timeout=120, errors="replace")
        return p.returncode, p.stderr
    except subprocess.TimeoutExpired:
        return -9, "ERROR: libFuzzer: timeout"


def main():
    ap = argparse.ArgumentParser()
    for a in ("--bin", "--verif", "--root", "--build", "--target", "--out", "--replay", "--replay-dir", "--exclude", "--tier"):
        ap.add_argument(a)
    ap.add_argument("--cases", type=int, default=20000)
    ap.add_argument("--max-size", type=int, default=100)
    ap.add_argument("--seed", type=int, default=1)
    a = ap.parse_args()
    env = dict(os.environ)
    env["ASAN_OPTIONS"] = "detect_leaks=1:abort_on_error=0:alloc_dealloc_mismatch=0:symbolize=1"
    env["UBSAN_OPTIONS"] = "print_stacktrace=1:halt_on_error=1"
    env.pop("MALLOC_PERTURB_", None)
    env.pop("GLIBC_TUNABLES", None)
    t0 = time.time()
    if a.replay:
        c = json.load(open(a.replay))
        with tempfile.NamedTemporaryFile(delete=False) as f:
            f.write(base64.b64decode(c["bytes_b64"]))
        rc, err = run_one(a.bin, f.name, env)
        os.unlink(f.name)
        res = {"mode": "replay", "target": c.get("target"), "verdict": "fail" if rc != 0 else "ok", "symptom": symptom_of(err, rc) if rc != 0 else "", "op": "history"}
        json.dump(res, open(a.out, "w"))
        return 1 if rc != 0 else 0
    work = tempfile.mkdtemp(prefix="c20fuzz-", dir=a.build)
    corpus = os.path.join(work, "corpus")
    art = os.path.join(work, "art") + "/"
    os.makedirs(corpus)
    os.makedirs(art)
    stats = os.path.join(work, "stats")
    env["C20_STATS"] = stats
    seed = (a.seed % 2147483646) + 1
    cmd = [a.bin, corpus, "-runs=%d" % a.cases, "-seed=%d" % seed, "-max_len=2048", "-len_control=20", "-artifact_prefix=" + art, "-timeout=60", "-print_final_stats=1", "-rss_limit_mb=4096"]
    p = subprocess.run(cmd, stdout=subprocess.PIPE, stderr=subprocess.PIPE, env=env, errors="replace")
    err = p.stderr
    m = re.search(r"stat::number_of_executed_units: (\d+)", err)
    evals = int(m.group(1)) if m else 0
    nt_exec = 0
    try:
        n, nt = open(stats).read().split()
        nt_exec = int(nt)
        evals = max(evals, int(n))
    except Exception:
        pass
    ncorp = len(os.listdir(corpus))
    samples = []
    for fn in sorted(os.listdir(corpus))[:3]:
        samples.append({"label": "corpus-input", "case": {"bytes_hex": open(os.path.join(corpus, fn), "rb").read()[:96].hex()}})
    res = {"mode": "search", "target": a.target, "seed": a.seed, "evaluations": evals, "nontrivial": nt_exec, "distinct_nontrivial": min(ncorp, nt_exec) if nt_exec else ncorp,
           "discards": 0, "classes": {"libfuzzer-corpus-files": ncorp}, "excluded": {}, "samples": samples,
           "nt_hashes": [hashlib.sha1(fn.encode()).hexdigest()[:16] for fn in os.listdir(corpus)]}
    arts = [os.path.join(art, f) for f in os.listdir(art) if f.startswith("crash-") or f.startswith("leak-")]
    rc = 0
    if arts:
        arts.sort(key=lambda f: os.path.getsize(f))
        best = arts[0]
        nf, sym = 0, ""
        for _ in range(3):
            r, e = run_one(a.bin, best, env)
            if r != 0:
                nf += 1
                sym = symptom_of(e, r)
        data = open(best, "rb").read()
        rp = os.path.join(a.replay_dir, "%s-%s.json" % (a.target, hashlib.sha1(data).hexdigest()[:16]))
        json.dump({"target": a.target, "bytes_b64": base64.b64encode(data).decode(), "symptom": sym}, open(rp, "w"))
        res["failure"] = {"symptom": sym or symptom_of(err, p.returncode), "op": "history", "sym_key": "fuzz", "replay": rp, "confirmed": nf}
        rc = 1
    elif p.returncode != 0:
        res["failure"] = {"symptom": "libFuzzer ended with rc %d without artifact: %s" % (p.returncode, err[-300:]), "op": "history", "sym_key": "fuzz", "replay": "", "confirmed": 0}
        rc = 1
    res["wall_s"] = time.time() - t0
    json.dump(res, open(a.out, "w"))
    shutil.rmtree(work, ignore_errors=True)
    return rc


if __name__ == "__main__":
    sys.exit(main())
