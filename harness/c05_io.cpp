// C05: persisted containers and checkpoints read back equal to what was written.
#include "common/lafem_gen.hpp"
#include "common/c01_core.hpp"
#include <kernel/lafem/sparse_vector.hpp>
#include <kernel/lafem/sparse_vector_blocked.hpp>
#include <kernel/util/binary_stream.hpp>
#include <kernel/util/dist.hpp>
#include <control/checkpoint_control.hpp>
#include <sstream>
using namespace vf;

typedef double D; typedef Index I;

static const char* mode_name(FileMode m)
{
  switch(m) { case FileMode::fm_exp: return "exp"; case FileMode::fm_dv: return "dv"; case FileMode::fm_mtx: return "mtx"; case FileMode::fm_csr: return "csr"; case FileMode::fm_bm: return "bm";
    case FileMode::fm_dm: return "dm"; case FileMode::fm_sv: return "sv"; case FileMode::fm_svb: return "svb"; case FileMode::fm_dvb: return "dvb"; case FileMode::fm_bcsr: return "bcsr"; case FileMode::fm_cscr: return "cscr"; case FileMode::fm_binary: return "binary"; default: return "?"; }
}
static bool is_text(FileMode m) { return m == FileMode::fm_exp || m == FileMode::fm_mtx; }

/// generic round trip of a container through one of its file modes.
/// flat(): scalar view used for text-precision comparison (same order for both objects when the layout is equal)
template<typename C, typename Flat>
static void roundtrip(Ctx& c, const C& a, FileMode m, Flat flat, double rel_prec)
{
  std::stringstream s1(std::ios::in | std::ios::out | std::ios::binary);
  a.write_out(m, s1);
  std::string w1 = s1.str();
  std::stringstream rd(w1, std::ios::in | std::ios::binary);
  C b; b.read_from(m, rd);
  VF_CHECK(a.get_scalar_index().size() <= b.get_scalar_index().size() || true, "");
  // dimensions / layout
  std::vector<long double> fa, fb; std::string la, lb; flat(a, fa, la); flat(b, fb, lb);
  VF_CHECK(la == lb, "read-back (" << mode_name(m) << ") has a different layout/dimensions: wrote " << la.substr(0, 120) << " read " << lb.substr(0, 120));
  VF_CHECK(fa.size() == fb.size(), "read-back (" << mode_name(m) << ") has " << fb.size() << " values, wrote " << fa.size());
  if(!is_text(m))
  {
    for(size_t k = 0; k < fa.size(); ++k) VF_CHECK(fa[k] == fb[k] || (fa[k] != fa[k] && fb[k] != fb[k]), "binary read-back (" << mode_name(m) << ") value " << k << " = " << (double)fb[k] << " wrote " << (double)fa[k]);
    VF_CHECK(a == b, "binary read-back (" << mode_name(m) << ") does not compare equal (operator==)");
  }
  else
  {
    for(size_t k = 0; k < fa.size(); ++k) VF_CHECK(fabsl(fa[k] - fb[k]) <= (long double)rel_prec * fabsl(fa[k]), "text read-back (" << mode_name(m) << ") value " << k << " = " << (double)fb[k] << " wrote " << (double)fa[k]);
    // idempotence: writing what was read reproduces the first output byte for byte
    std::stringstream s2(std::ios::in | std::ios::out | std::ios::binary); b.write_out(m, s2);
    VF_CHECK(s2.str() == w1, "re-writing the read-back object (" << mode_name(m) << ") does not reproduce the first output");
  }
  (void)c;
}

template<typename C, typename DT2, typename IT2, typename Flat>
static void roundtrip_serialize(const C& a, Flat flat, const char* tn)
{
  auto buf = a.template serialize<DT2, IT2>();
  C b; b.template deserialize<DT2, IT2>(buf);
  std::vector<long double> fa, fb; std::string la, lb; flat(a, fa, la); flat(b, fb, lb);
  VF_CHECK(la == lb, "deserialize<" << tn << "> has a different layout/dimensions: " << la.substr(0, 100) << " vs " << lb.substr(0, 100));
  VF_CHECK(fa == fb, "deserialize<" << tn << "> values differ");
  VF_CHECK(a == b, "deserialize<" << tn << "> does not compare equal (operator==)");
}

// ---- flat views: values + a layout string (dims and index arrays)
template<typename M> static void flat_container(const M& a, std::vector<long double>& v, std::string& lay)
{
  std::ostringstream os; for(auto x : a.get_scalar_index()) os << x << ","; os << "|";
  auto& in = a.get_indices(); auto& is = a.get_indices_size();
  for(size_t k = 0; k < in.size(); ++k) { os << "["; for(Index q = 0; q < is[k]; ++q) os << (unsigned long long)in[k][q] << " "; os << "]"; }
  lay = os.str();
  auto& el = a.get_elements(); auto& es = a.get_elements_size();
  for(size_t k = 0; k < el.size(); ++k) for(Index q = 0; q < es[k]; ++q) v.push_back((long double)el[k][q]);
}
/// CSR layout as mathematical content (scalar sizes + row_ptr/col_ind), independent of "entry-free with or without arrays"
template<typename DT, typename IT> static void flat_csr(const SparseMatrixCSR<DT, IT>& a, std::vector<long double>& v, std::string& lay)
{
  std::ostringstream os; os << a.rows() << "x" << a.columns() << " ue " << a.used_elements() << " |";
  if(a.used_elements() > 0) { for(Index i = 0; i <= a.rows(); ++i) os << (unsigned long long)a.row_ptr()[i] << " "; os << "|"; for(Index k = 0; k < a.used_elements(); ++k) { os << (unsigned long long)a.col_ind()[k] << " "; v.push_back((long double)a.val()[k]); } }
  lay = os.str();
}
/// sparse vector: only the used part of the arrays is content (the allocation tail holds the fill pattern)
template<typename SV> static void flat_sparse(const SV& a, std::vector<long double>& v, std::string& lay, int bs)
{
  const_cast<SV&>(a).sort();
  std::ostringstream os; os << a.size() << " used " << a.used_elements() << " |"; for(Index k = 0; k < a.used_elements(); ++k) os << (unsigned long long)a.indices()[k] << " "; lay = os.str();
  const auto* e = a.template elements<Perspective::pod>(); for(Index k = 0; k < a.used_elements() * Index(bs); ++k) v.push_back((long double)e[k]);
}

// value classes: 0 ints / 1 dyadics are exactly representable in float and in the text formats
static int gen_vcls(Tape& t, bool need_exact) { return need_exact ? t.pick({2, 1}) : t.pick({2, 1, 3, 1}); }

template<typename DT, typename IT> static void csr_case(Tape& t, Ctx& c)
{
  static const FileMode modes[] = {FileMode::fm_mtx, FileMode::fm_csr, FileMode::fm_binary};
  int mi = t.range(0, 3); bool ser = (mi == 3); int sty = t.range(0, 3);
  int vcls = gen_vcls(t, ser);
  Pat p = gen_pattern(t, 14, vcls);
  bool ef = p.nnz() == 0;
  if(!ser && modes[mi] == FileMode::fm_mtx && ef && p.rows > 0 && c.excl("c05-csr-mtx-entryfree")) { p.col[0].push_back(0); p.val[0].push_back(1.0); if(p.cols == 0) p.cols = 1; ef = false; }
  c.desc.set("kind", "csr"); c.desc.set("dt", TypeName<DT>::n()); c.desc.set("it", TypeName<IT>::n()); c.desc.set("A", p.json()); c.desc.set("mode", ser ? "serialize" : mode_name(modes[mi])); if(ser) c.desc.set("ser_types", sty);
  c.op = std::string(ser ? "serialize" : mode_name(modes[mi])) + "@csr"; c.label("kind:csr"); c.label(std::string("mode:") + (ser ? "serialize" : mode_name(modes[mi]))); c.label("pat:" + p.cls);
  if(ef) c.label("edge:entry-free"); else if(p.has_empty_row()) c.label("edge:empty-row");
  c.nontrivial = p.nnz() >= 1 || ef; c.announce();
  auto A = make_csr<DT, IT>(p);
  auto fl = [](const SparseMatrixCSR<DT, IT>& a, std::vector<long double>& v, std::string& l) { flat_csr(a, v, l); };
  if(!ser) roundtrip(c, A, modes[mi], fl, 6e-7);
  else switch(sty) { case 0: roundtrip_serialize<SparseMatrixCSR<DT, IT>, double, std::uint64_t>(A, fl, "double,u64"); break; case 1: roundtrip_serialize<SparseMatrixCSR<DT, IT>, float, std::uint32_t>(A, fl, "float,u32"); break; case 2: roundtrip_serialize<SparseMatrixCSR<DT, IT>, double, std::uint32_t>(A, fl, "double,u32"); break; default: roundtrip_serialize<SparseMatrixCSR<DT, IT>, float, std::uint64_t>(A, fl, "float,u64"); }
}

static void matrix_case(Tape& t, Ctx& c)
{
  int kind = t.pick({2, 2, 2, 2}); // bcsr, cscr, banded, dense
  int vcls = gen_vcls(t, true);
  bool ser = t.flag(1, 3);
  switch(kind)
  {
  case 0: { typedef SparseMatrixBCSR<D, I, 2, 3> M; static const FileMode modes[] = {FileMode::fm_bcsr, FileMode::fm_binary, FileMode::fm_mtx}; FileMode m = modes[t.range(0, 2)];
    Pat p = gen_pattern(t, 9, vcls); c.desc.set("kind", "bcsr<2,3>"); c.desc.set("A", p.json()); c.desc.set("mode", ser ? "serialize" : mode_name(m));
    c.op = std::string(ser ? "serialize" : mode_name(m)) + "@bcsr"; c.label("kind:bcsr"); c.label(std::string("mode:") + (ser ? "serialize" : mode_name(m))); if(p.nnz() == 0) c.label("edge:entry-free"); else if(p.has_empty_row()) c.label("edge:empty-row");
    c.nontrivial = true; c.announce(); M A = make_bcsr<D, I, 2, 3>(p);
    auto fl = [](const M& a, std::vector<long double>& v, std::string& l) { flat_container(a, v, l); };
    if(ser) roundtrip_serialize<M, float, std::uint32_t>(A, fl, "float,u32");
    else if(m == FileMode::fm_mtx)
    {
      // BCSR writes MatrixMarket but has no reader for it (exchange format): the scalar CSR reader reads the file back; the
      // result must be the scalar matrix the blocked one represents - same pod dimensions, same stored positions, values to
      // the printed precision
      std::stringstream s1(std::ios::in | std::ios::out | std::ios::binary); A.write_out(m, s1); std::string w1 = s1.str();
      std::stringstream rd(w1, std::ios::in | std::ios::binary); SparseMatrixCSR<D, I> B(FileMode::fm_mtx, rd);
      Dense da = dense_of(A), db = dense_of(B);
      VF_CHECK(da.r == db.r && da.c == db.c, "mtx written by bcsr<2,3> read back as csr has dimensions " << db.r << "x" << db.c << ", the blocked matrix " << da.r << "x" << da.c);
      for(long i = 0; i < da.r; ++i) for(long j = 0; j < da.c; ++j)
      {
        VF_CHECK((bool)da.st(i, j) == (bool)db.st(i, j), "mtx written by bcsr<2,3>: scalar position (" << i << "," << j << ") is " << (da.st(i, j) ? "stored in the blocked matrix but missing in the file" : "in the file but not stored in the blocked matrix"));
        VF_CHECK(fabsl(da(i, j) - db(i, j)) <= 6e-7L * fabsl(da(i, j)), "mtx written by bcsr<2,3>: entry (" << i << "," << j << ") reads " << (double)db(i, j) << " wrote " << (double)da(i, j));
      }
    }
    else roundtrip(c, A, m, fl, 0); break; }
  case 1: { typedef SparseMatrixCSCR<D, I> M; static const FileMode modes[] = {FileMode::fm_cscr, FileMode::fm_binary}; FileMode m = modes[t.range(0, 1)];
    Pat p = gen_pattern(t, 12, vcls); c.desc.set("kind", "cscr"); c.desc.set("A", p.json()); c.desc.set("mode", ser ? "serialize" : mode_name(m));
    c.op = std::string(ser ? "serialize" : mode_name(m)) + "@cscr"; c.label("kind:cscr"); c.label(std::string("mode:") + (ser ? "serialize" : mode_name(m))); if(p.nnz() == 0) c.label("edge:entry-free"); else if(p.has_empty_row()) c.label("edge:empty-row");
    c.nontrivial = true; c.announce(); M A = make_cscr<D, I>(p);
    auto fl = [](const M& a, std::vector<long double>& v, std::string& l) { flat_container(a, v, l); };
    if(ser) roundtrip_serialize<M, float, std::uint32_t>(A, fl, "float,u32"); else roundtrip(c, A, m, fl, 0); break; }
  case 2: { typedef SparseMatrixBanded<D, I> M; static const FileMode modes[] = {FileMode::fm_bm, FileMode::fm_binary}; FileMode m = modes[t.range(0, 1)];
    Band b = gen_band(t, 10, vcls); c.desc.set("kind", "banded"); c.desc.set("A", b.json()); c.desc.set("mode", ser ? "serialize" : mode_name(m));
    c.op = std::string(ser ? "serialize" : mode_name(m)) + "@banded"; c.label("kind:banded"); c.label(std::string("mode:") + (ser ? "serialize" : mode_name(m)));
    c.nontrivial = true; c.announce(); M A = make_banded<D, I>(b);
    auto fl = [](const M& a, std::vector<long double>& v, std::string& l) { flat_container(a, v, l); };
    if(ser) roundtrip_serialize<M, float, std::uint32_t>(A, fl, "float,u32"); else roundtrip(c, A, m, fl, 0); break; }
  default: { typedef DenseMatrix<D, I> M; static const FileMode modes[] = {FileMode::fm_dm, FileMode::fm_binary, FileMode::fm_mtx}; FileMode m = modes[t.range(0, 2)];
    Pat p = gen_pattern(t, 8, vcls, false, -1, 1); c.desc.set("kind", "dense"); c.desc.set("A", p.json()); c.desc.set("mode", ser ? "serialize" : mode_name(m));
    c.op = std::string(ser ? "serialize" : mode_name(m)) + "@dense"; c.label("kind:dense"); c.label(std::string("mode:") + (ser ? "serialize" : mode_name(m)));
    c.nontrivial = true; c.announce(); M A = make_densem<D, I>(p);
    auto fl = [](const M& a, std::vector<long double>& v, std::string& l) { flat_container(a, v, l); };
    if(ser) roundtrip_serialize<M, float, std::uint32_t>(A, fl, "float,u32"); else roundtrip(c, A, m, fl, 6e-7); break; }
  }
}

static void vector_case(Tape& t, Ctx& c)
{
  int kind = t.pick({3, 2, 2, 1}); // dense, blocked, sparse, sparse blocked
  bool ser = t.flag(1, 4);
  int vcls = gen_vcls(t, ser);
  static const int special[] = {0, 0, 1, 2, 3, 4, 5, 7, 8, 9, 16, 17, 33};
  long n = t.flag() ? special[t.range(0, 12)] : t.sized(0, 40);
  switch(kind)
  {
  case 0: { typedef DenseVector<D, I> V; static const FileMode modes[] = {FileMode::fm_exp, FileMode::fm_mtx, FileMode::fm_dv, FileMode::fm_binary}; FileMode m = modes[t.range(0, 3)];
    if(n == 0 && !ser && m == FileMode::fm_exp && c.excl("c05-dv-exp-len0")) n = 1;
    std::vector<double> v = gen_values(t, (size_t)n, vcls); c.desc.set("kind", "dense_vector"); c.desc.set("n", n); c.desc.set("v", J(v)); c.desc.set("mode", ser ? "serialize" : mode_name(m));
    c.op = std::string(ser ? "serialize" : mode_name(m)) + "@dv"; c.label("kind:dv"); c.label(std::string("mode:") + (ser ? "serialize" : mode_name(m))); if(n == 0) c.label("edge:length-0");
    c.nontrivial = true; c.announce(); V a((Index)n); vfill_all(a, v);
    auto fl = [](const V& x, std::vector<long double>& o, std::string& l) { l = std::to_string(x.size()); vflat(x, o); };
    if(ser) roundtrip_serialize<V, float, std::uint32_t>(a, fl, "float,u32"); else roundtrip(c, a, m, fl, 6e-7); break; }
  case 1: { typedef DenseVectorBlocked<D, I, 3> V; static const FileMode modes[] = {FileMode::fm_exp, FileMode::fm_mtx, FileMode::fm_dvb, FileMode::fm_binary}; FileMode m = modes[t.range(0, 3)];
    long nb = n / 3; std::vector<double> v = gen_values(t, (size_t)(nb * 3), vcls); c.desc.set("kind", "dense_vector_blocked<3>"); c.desc.set("n", nb); c.desc.set("v", J(v)); c.desc.set("mode", ser ? "serialize" : mode_name(m));
    c.op = std::string(ser ? "serialize" : mode_name(m)) + "@dvb"; c.label("kind:dvb"); c.label(std::string("mode:") + (ser ? "serialize" : mode_name(m))); if(nb == 0) c.label("edge:length-0");
    c.nontrivial = true; c.announce(); V a((Index)nb); vfill_all(a, v);
    auto fl = [](const V& x, std::vector<long double>& o, std::string& l) { l = std::to_string(x.size()); vflat(x, o); };
    if(ser) roundtrip_serialize<V, float, std::uint32_t>(a, fl, "float,u32"); else roundtrip(c, a, m, fl, 6e-7); break; }
  case 2: { typedef SparseVector<D, I> V; static const FileMode modes[] = {FileMode::fm_mtx, FileMode::fm_sv, FileMode::fm_binary}; FileMode m = modes[t.range(0, 2)];
    long sz = std::max(1L, n); std::vector<std::pair<long, double>> ins; for(long i = 0; i < sz; ++i) if(t.flag(1, 3)) ins.push_back({i, t.real_nz(vcls)});
    // a sparse vector without any stored entry has no arrays; the property names 'vectors of length 0' only, so at least one entry is stored
    if(ins.empty()) ins.push_back({(long)t.range(0, (int)sz - 1), 1.0});
    { J a = J::arr(); for(auto& p : ins) { J e = J::arr(); e.add(p.first); e.add(p.second); a.add(e); } c.desc.set("entries", a); } c.desc.set("kind", "sparse_vector"); c.desc.set("size", sz); c.desc.set("mode", ser ? "serialize" : mode_name(m));
    c.op = std::string(ser ? "serialize" : mode_name(m)) + "@sv"; c.label("kind:sv"); c.label(std::string("mode:") + (ser ? "serialize" : mode_name(m))); if(ins.empty()) c.label("edge:no-entries");
    c.nontrivial = true; c.announce(); V a((Index)sz); for(auto& p : ins) a((Index)p.first, p.second); a.sort();
    auto fl = [](const V& x, std::vector<long double>& o, std::string& l) { flat_sparse(x, o, l, 1); };
    // operator== of sparse vectors compares the used part; use the content comparison of flat_sparse in addition
    if(ser) roundtrip_serialize<V, float, std::uint32_t>(a, fl, "float,u32"); else roundtrip(c, a, m, fl, 6e-7); break; }
  default: { typedef SparseVectorBlocked<D, I, 2> V; static const FileMode modes[] = {FileMode::fm_svb, FileMode::fm_binary}; FileMode m = modes[t.range(0, 1)];
    long sz = std::max(1L, n / 2); std::vector<long> idx; std::vector<double> vals; for(long i = 0; i < sz; ++i) if(t.flag(1, 3)) { idx.push_back(i); vals.push_back(t.real_nz(vcls)); vals.push_back(t.real(vcls)); }
    if(idx.empty()) { idx.push_back(0); vals.push_back(1.0); vals.push_back(2.0); }   // see sparse_vector: at least one stored entry
    c.desc.set("kind", "sparse_vector_blocked<2>"); c.desc.set("size", sz); c.desc.set("idx", J(idx)); c.desc.set("vals", J(vals)); c.desc.set("mode", ser ? "serialize" : mode_name(m));
    c.op = std::string(ser ? "serialize" : mode_name(m)) + "@svb"; c.label("kind:svb"); c.label(std::string("mode:") + (ser ? "serialize" : mode_name(m))); if(idx.empty()) c.label("edge:no-entries");
    c.nontrivial = true; c.announce(); V a((Index)sz); for(size_t k = 0; k < idx.size(); ++k) { Tiny::Vector<D, 2> b; b[0] = vals[2 * k]; b[1] = vals[2 * k + 1]; a((Index)idx[k], b); } a.sort();
    auto fl = [](const V& x, std::vector<long double>& o, std::string& l) { flat_sparse(x, o, l, 2); };
    if(ser) roundtrip_serialize<V, float, std::uint32_t>(a, fl, "float,u32"); else roundtrip(c, a, m, fl, 0); break; }
  }
}

// ---------------------------------------------------------------- checkpoints: several objects, restored in another order
static void checkpoint_case(Tape& t, Ctx& c)
{
  typedef DenseVector<D, I> V; typedef SparseMatrixCSR<D, I> M; typedef DenseVectorBlocked<D, I, 2> VB; typedef SparseMatrixBCSR<D, I, 2, 2> MB;
  int nobj = t.sized(1, 6, 2);
  // identifiers: distinct, incl. prefixes of each other and length-1 names
  static const char* pool[] = {"a", "ab", "abc", "b", "a_", "vec", "vec1", "m", "matrix", "x", "zero", "ab0"};
  std::vector<int> perm(12); for(int i = 0; i < 12; ++i) perm[(size_t)i] = i; for(int i = 12; i > 1; --i) std::swap(perm[(size_t)i - 1], perm[(size_t)t.range(0, i - 1)]);
  struct Obj { int kind; std::string id; std::vector<double> v; Pat p; };
  std::vector<Obj> objs; J jd = J::arr();
  for(int k = 0; k < nobj; ++k)
  {
    Obj o; o.kind = t.pick({3, 3, 2, 2}); o.id = pool[perm[(size_t)k]];
    J e = J::obj(); e.set("id", o.id);
    if(o.kind == 0) { long n = t.sized(0, 12); o.v = gen_values(t, (size_t)n, 1); for(auto& x : o.v) x += 100.0 * (k + 1); e.set("kind", "dv"); e.set("v", J(o.v)); }
    else if(o.kind == 2) { long n = t.sized(0, 6); o.v = gen_values(t, (size_t)(2 * n), 1); for(auto& x : o.v) x += 100.0 * (k + 1); e.set("kind", "dvb<2>"); e.set("v", J(o.v)); }
    else { o.p = gen_pattern(t, 7, 1); for(auto& r : o.p.val) for(auto& x : r) x += 100.0 * (k + 1); e.set("kind", o.kind == 1 ? "csr" : "bcsr<2,2>"); e.set("A", o.p.json()); }
    objs.push_back(o); jd.add(e);
  }
  std::vector<int> order(objs.size()); for(size_t i = 0; i < order.size(); ++i) order[i] = (int)i; for(size_t i = order.size(); i > 1; --i) std::swap(order[i - 1], order[(size_t)t.range(0, (int)i - 1)]);
  c.desc.set("objects", jd); c.desc.set("restore_order", J(order)); c.op = "checkpoint"; c.label("objects:" + std::to_string(nobj)); c.nontrivial = nobj >= 2; c.announce();
  Dist::Comm comm = Dist::Comm::world();
  std::vector<V> vs(objs.size()); std::vector<M> ms(objs.size()); std::vector<VB> vbs(objs.size()); std::vector<MB> mbs(objs.size());
  Control::CheckpointControl cc(comm);
  for(size_t k = 0; k < objs.size(); ++k)
  {
    auto& o = objs[k];
    if(o.kind == 0) { vs[k] = V((Index)o.v.size()); vfill_all(vs[k], o.v); cc.add_object(o.id, vs[k]); }
    else if(o.kind == 2) { vbs[k] = VB((Index)(o.v.size() / 2)); vfill_all(vbs[k], o.v); cc.add_object(o.id, vbs[k]); }
    else if(o.kind == 1) { ms[k] = make_csr<D, I>(o.p); cc.add_object(o.id, ms[k]); }
    else { mbs[k] = make_bcsr<D, I, 2, 2>(o.p); cc.add_object(o.id, mbs[k]); }
  }
  BinaryStream bs; cc.save(bs); bs.seekg(0);
  Control::CheckpointControl c2(comm); c2.load(bs);
  for(int oi : order)
  {
    auto& o = objs[(size_t)oi]; size_t k = (size_t)oi;
    if(o.kind == 0) { V r; c2.restore_object(o.id, r, false); std::string a, b; vbytes(vs[k], a); vbytes(r, b); VF_CHECK(r.size() == vs[k].size() && a == b, "checkpoint: vector '" << o.id << "' restored with different content (size " << r.size() << " vs " << vs[k].size() << ")"); }
    else if(o.kind == 2) { VB r; c2.restore_object(o.id, r, false); std::string a, b; vbytes(vbs[k], a); vbytes(r, b); VF_CHECK(r.size() == vbs[k].size() && a == b, "checkpoint: blocked vector '" << o.id << "' restored with different content"); }
    else if(o.kind == 1) { M r; c2.restore_object(o.id, r, false); std::vector<long double> fa, fb; std::string la, lb; flat_csr(ms[k], fa, la); flat_csr(r, fb, lb); VF_CHECK(la == lb && fa == fb, "checkpoint: matrix '" << o.id << "' restored with different content: " << la.substr(0, 80) << " vs " << lb.substr(0, 80)); }
    else { MB r; c2.restore_object(o.id, r, false); std::vector<long double> fa, fb; std::string la, lb; flat_container(mbs[k], fa, la); flat_container(r, fb, lb); VF_CHECK(la == lb && fa == fb, "checkpoint: block matrix '" << o.id << "' restored with different content"); }
  }
}

int main(int argc, char** argv)
{
  FEAT::Runtime::ScopeGuard guard(argc, argv);
  std::vector<Target> tg;
  tg.push_back({"csr", [](Tape& t, Ctx& c) { switch(t.pick({3, 1, 1})) { case 0: csr_case<double, std::uint64_t>(t, c); break; case 1: csr_case<float, std::uint32_t>(t, c); break; default: csr_case<double, std::uint32_t>(t, c); } }, 96, 10});
  tg.push_back({"matrix", matrix_case, 96, 10});
  tg.push_back({"vector", vector_case, 96, 6});
  tg.push_back({"checkpoint", checkpoint_case, 128, 12});
  return main_impl(argc, argv, tg);
}
