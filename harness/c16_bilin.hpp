// c16_bilin.hpp - scalar bilinear operators of common_operators.hpp on generated meshes / element pairs:
// classic cell loop (assemble_matrix1/2, apply1/2), domain-assembler jobs (assemble_bilinear_operator_matrix_1/2),
// symbolic patterns (std / ext_facet / ext_node), against exact integrals, kernel, symmetry, volume, route agreement.
#pragma once
#include "c16_core.hpp"
#include <kernel/assembly/bilinear_operator_assembler.hpp>
#include <kernel/assembly/common_operators.hpp>
#include <kernel/assembly/domain_assembler.hpp>
#include <kernel/assembly/domain_assembler_helpers.hpp>

namespace c16
{
  enum OpKind { OpIdentity = 0, OpLaplace, OpLaplaceBeltrami, OpTrialDeriv, OpTestDeriv, OpDivDiv, OpDuDv, OpCount };
  static const char* op_names[] = {"identity", "laplace", "laplace_beltrami", "trial_derivative", "test_derivative", "divdiv", "dudv"};

  struct OpSpec
  {
    int kind = 0, a = 0, b = 0;
    bool mass_type() const { return kind == OpIdentity; }
    bool symmetric() const { return kind == OpIdentity || kind == OpLaplace || kind == OpLaplaceBeltrami || ((kind == OpDivDiv || kind == OpDuDv) && a == b); }
    bool kills_trial_const() const { return kind == OpLaplace || kind == OpLaplaceBeltrami || kind == OpTrialDeriv || kind == OpDivDiv || kind == OpDuDv; }
    bool kills_test_const() const { return kind == OpLaplace || kind == OpLaplaceBeltrami || kind == OpTestDeriv || kind == OpDivDiv || kind == OpDuDv; }
    /// the documented bilinear form: integrand for trial function u and test function v at x
    LD integrand(const Poly& u, const Poly& v, const LD* x, int dim) const
    {
      switch(kind)
      {
      case OpIdentity: return u.val<LD>(x) * v.val<LD>(x);
      case OpLaplace: case OpLaplaceBeltrami: { LD s = 0; for(int i = 0; i < dim; ++i) s += u.der<LD>(x, i) * v.der<LD>(x, i); return s; }
      case OpTrialDeriv: return u.der<LD>(x, a) * v.val<LD>(x);             // d_a phi * psi   (phi trial, psi test)
      case OpTestDeriv: return u.val<LD>(x) * v.der<LD>(x, a);              // phi * d_a psi
      case OpDivDiv: return u.der<LD>(x, b) * v.der<LD>(x, a);              // block (ir=a, ic=b): d_ic phi * d_ir psi
      default: { LD s = u.der<LD>(x, a) * v.der<LD>(x, b); if(a == b) for(int i = 0; i < dim; ++i) s += u.der<LD>(x, i) * v.der<LD>(x, i); return s; } // d_k phi d_l psi (+ delta_kl grad.grad)
      }
    }
  };

  inline std::uint32_t hash32(std::uint32_t a, std::uint32_t b) { std::uint64_t x = (std::uint64_t(a) << 32 | b) * 0x9e3779b97f4a7c15ull; x ^= x >> 29; x *= 0xbf58476d1ce4e5b9ull; x ^= x >> 32; return (std::uint32_t)x; }

  template<typename Shape_, typename TeTag, typename TrTag, typename DT, typename IT>
  struct BilinCase
  {
    static constexpr int dim = Shape_::dimension;
    static constexpr bool same = std::is_same<TeTag, TrTag>::value;
    typedef Geometry::ConformalMesh<Shape_, dim, double> MeshType;
    typedef Trafo::Standard::Mapping<MeshType> TrafoType;
    typedef typename TeTag::template S<TrafoType> TestSpace;
    typedef typename TrTag::template S<TrafoType> TrialSpace;
    typedef LAFEM::SparseMatrixCSR<DT, IT> MatrixType;
    typedef LAFEM::DenseVector<DT, IT> VectorType;

    Tape& t; Ctx& c; const RawMesh& rm;
    std::unique_ptr<MeshType> mesh; std::unique_ptr<TrafoType> trafo; std::unique_ptr<TestSpace> te; std::unique_ptr<TrialSpace> tr;
    OpSpec op; DT alpha = DT(1); int cubdeg = 0; std::string cubname; int pat = 0;
    Poly pu, pv; bool exact_ok = false; std::uint32_t xseed = 0, sseed = 0; bool accumulate = false;

    BilinCase(Tape& t_, Ctx& c_, const RawMesh& m) : t(t_), c(c_), rm(m) {}

    template<typename Op> void routes(Op& oper)
    {
      const TestSpace& tes = *te; const TrialSpace& trs = *tr;
      const long nr = (long)tes.get_num_dofs(), nc = (long)trs.get_num_dofs();
      Cubature::DynamicFactory cub(cubname);
      // ---------------------------------------------------------------- symbolic pattern contains every coupling
      MatrixType A;
      switch(pat)
      {
      case 0: Assembly::SymbolicAssembler::assemble_matrix_std2(A, tes, trs); break;
      case 1: Assembly::SymbolicAssembler::assemble_matrix_ext_facet2(A, tes, trs); break;
      case 2: Assembly::SymbolicAssembler::assemble_matrix_ext_node2(A, tes, trs); break;
      default:
        if constexpr(same) { if(pat == 3) Assembly::SymbolicAssembler::assemble_matrix_std1(A, tes); else if(pat == 4) Assembly::SymbolicAssembler::assemble_matrix_ext_facet1(A, tes); else Assembly::SymbolicAssembler::assemble_matrix_ext_node1(A, tes); }
        else Assembly::SymbolicAssembler::assemble_matrix_std2(A, tes, trs);
      }
      VF_CHECK((long)A.rows() == nr && (long)A.columns() == nc, "symbolic matrix has dimensions " << A.rows() << "x" << A.columns() << " expected " << nr << "x" << nc);
      auto cdt = cell_dofs(tes); auto cdr = cell_dofs(trs);
      std::vector<char> cpl = couplings(cdt, cdr, nr, nc);
      check_pattern(A.row_ptr(), A.col_ind(), nr, nc, (long)A.used_elements(), cpl, "symbolic pattern");

      // ---------------------------------------------------------------- route 1: classic cell loop, two spaces
      A.format();
      Assembly::BilinearOperatorAssembler::assemble_matrix2(A, oper, tes, trs, cub, alpha);
      const Dn dA = dense_of(A);
      VF_CHECK(dA.finite(), "assemble_matrix2 produced non-finite entries");
      for(long i = 0; i < nr; ++i) for(long j = 0; j < nc; ++j)
        if(dA.s(i, j) && !cpl[(size_t)(i * nc + j)]) VF_CHECK(dA(i, j) == 0.0L, "entry (" << i << "," << j << ") outside every cell coupling received the value " << (double)dA(i, j));
      const double kap = rm.kappa;

      // ---------------------------------------------------------------- route 2: domain assembler job, two spaces
      Assembly::DomainAssembler<TrafoType> da(*trafo); da.compile_all_elements();
      {
        MatrixType B = A.clone(LAFEM::CloneMode::Layout); B.format();
        Assembly::assemble_bilinear_operator_matrix_2(da, B, oper, tes, trs, cubname, alpha);
        check_same<DT>(dA, dense_of(B), kap, "assemble_bilinear_operator_matrix_2 vs assemble_matrix2");
      }
      if constexpr(same)
      {
        MatrixType B = A.clone(LAFEM::CloneMode::Layout); B.format();
        Assembly::BilinearOperatorAssembler::assemble_matrix1(B, oper, tes, cub, alpha);
        check_same<DT>(dA, dense_of(B), kap, "assemble_matrix1 vs assemble_matrix2");
        MatrixType C = A.clone(LAFEM::CloneMode::Layout); C.format();
        Assembly::assemble_bilinear_operator_matrix_1(da, C, oper, tes, cubname, alpha);
        check_same<DT>(dA, dense_of(C), kap, "assemble_bilinear_operator_matrix_1 vs assemble_matrix2");
      }
      // ---------------------------------------------------------------- accumulation: assembly adds alpha*A to the existing content
      if(accumulate)
      {
        MatrixType B = A.clone(LAFEM::CloneMode::Layout); B.format(DT(0.5));
        Assembly::BilinearOperatorAssembler::assemble_matrix2(B, oper, tes, trs, cub, alpha);
        Dn dB = dense_of(B); for(long i = 0; i < nr; ++i) for(long j = 0; j < nc; ++j) if(dB.s(i, j)) dB(i, j) -= 0.5L;
        Dn ref = dA; LD sc = std::max(dA.maxabs(), 0.5L);
        VF_CHECK(dB.r == ref.r, "dims");
        const LD tol = tol_of<DT>(kap, sc);
        for(long i = 0; i < nr; ++i) for(long j = 0; j < nc; ++j) VF_CHECK(fabsl(dB(i, j) - ref(i, j)) <= tol, "assembly into a pre-filled matrix: entry (" << i << "," << j << ") " << (double)dB(i, j) << " vs " << (double)ref(i, j));
      }
      // ---------------------------------------------------------------- domain assembler on complementary element subsets sums up to the whole
      if(sseed != 0 && rm.cells.size() > 1)
      {
        Assembly::DomainAssembler<TrafoType> d1(*trafo), d2(*trafo);
        for(Index e = 0; e < (Index)rm.cells.size(); ++e) { if(hash32(sseed, (std::uint32_t)e) & 1u) d1.add_element(e); else d2.add_element(e); }
        d1.compile(); d2.compile();
        MatrixType B = A.clone(LAFEM::CloneMode::Layout); B.format();
        Assembly::assemble_bilinear_operator_matrix_2(d1, B, oper, tes, trs, cubname, alpha);
        Assembly::assemble_bilinear_operator_matrix_2(d2, B, oper, tes, trs, cubname, alpha);
        check_same<DT>(dA, dense_of(B), kap, "domain assembler on two complementary element sets vs whole mesh");
      }
      // ---------------------------------------------------------------- matrix-free application
      {
        VectorType x(trs.get_num_dofs()), y(tes.get_num_dofs(), DT(7));
        for(Index i = 0; i < x.size(); ++i) x.elements()[i] = (xseed == 0) ? DT(1) : DT(double(int(hash32(xseed, (std::uint32_t)i) % 33u) - 16) / 8.0);
        std::vector<LD> xs = flat_of(x), ref((size_t)nr, 0.0L), refabs((size_t)nr, 0.0L);
        for(long i = 0; i < nr; ++i) for(long j = 0; j < nc; ++j) { ref[(size_t)i] += dA(i, j) * xs[(size_t)j]; refabs[(size_t)i] += fabsl(dA(i, j) * xs[(size_t)j]); }
        Assembly::BilinearOperatorAssembler::apply2(y, x, oper, tes, trs, cub, alpha);
        std::vector<LD> ys = flat_of(y);
        const LD sc = std::max(maxabs(refabs), dA.maxabs() * maxabs(xs));
        for(long i = 0; i < nr; ++i) VF_CHECK(std::isfinite((double)ys[(size_t)i]) && fabsl(ys[(size_t)i] - ref[(size_t)i]) <= tol_of<DT>(kap, sc), "apply2 entry " << i << ": " << (double)ys[(size_t)i] << " vs matrix*x " << (double)ref[(size_t)i]);
        if constexpr(same)
        {
          VectorType z(tes.get_num_dofs(), DT(-3));
          Assembly::BilinearOperatorAssembler::apply1(z, x, oper, tes, cub, alpha);
          std::vector<LD> zs = flat_of(z);
          for(long i = 0; i < nr; ++i) VF_CHECK(std::isfinite((double)zs[(size_t)i]) && fabsl(zs[(size_t)i] - ref[(size_t)i]) <= tol_of<DT>(kap, sc), "apply1 entry " << i << ": " << (double)zs[(size_t)i] << " vs matrix*x " << (double)ref[(size_t)i]);
        }
      }

      // ---------------------------------------------------------------- oracles on the classic result
      const LD al = (LD)alpha; const LD SA = dA.sumabs(); const LD amax = dA.maxabs();
      VectorType one_te, one_tr; Poly pone; pone.dim = dim; pone.t.push_back({1.0, {0, 0, 0}}); PolyFunction<dim> fone(pone);
      Assembly::Interpolator::project(one_te, fone, tes); Assembly::Interpolator::project(one_tr, fone, trs);
      const std::vector<LD> o_te = flat_of(one_te), o_tr = flat_of(one_tr);
      if(op.kills_trial_const())
        for(long i = 0; i < nr; ++i) { LD s = 0, sa = 0; for(long j = 0; j < nc; ++j) { s += dA(i, j) * o_tr[(size_t)j]; sa += fabsl(dA(i, j) * o_tr[(size_t)j]); }
          VF_CHECK(fabsl(s) <= tol_of<DT>(kap, std::max(sa, amax)), op_names[op.kind] << ": (A*1)_" << i << " = " << (double)s << " but constants are in the kernel (row abs sum " << (double)sa << ")"); }
      if(op.kills_test_const())
        for(long j = 0; j < nc; ++j) { LD s = 0, sa = 0; for(long i = 0; i < nr; ++i) { s += dA(i, j) * o_te[(size_t)i]; sa += fabsl(dA(i, j) * o_te[(size_t)i]); }
          VF_CHECK(fabsl(s) <= tol_of<DT>(kap, std::max(sa, amax)), op_names[op.kind] << ": (1^T*A)_" << j << " = " << (double)s << " but constant test functions are annihilated (column abs sum " << (double)sa << ")"); }
      if constexpr(same)
      {
        if(op.symmetric())
          for(long i = 0; i < nr; ++i) for(long j = i + 1; j < nc; ++j)
            VF_CHECK(fabsl(dA(i, j) - dA(j, i)) <= tol_of<DT>(kap, amax), op_names[op.kind] << ": symmetric form but A(" << i << "," << j << ")=" << (double)dA(i, j) << " A(" << j << "," << i << ")=" << (double)dA(j, i));
      }
      if(op.kind == OpIdentity)
      {
        const LD vol = mesh_volume(rm); const LD got = bil(o_te, dA, o_tr);
        VF_CHECK(fabsl(got - al * vol) <= tol_of<DT>(kap, SA), "1^T M 1 = " << (double)got << " but alpha*volume = " << (double)(al * vol));
      }
      if(exact_ok)
      {
        PolyFunction<dim> fu(pu), fv(pv); VectorType uh, vh;
        Assembly::Interpolator::project(uh, fu, trs); Assembly::Interpolator::project(vh, fv, tes);
        const std::vector<LD> us = flat_of(uh), vs = flat_of(vh);
        const int ideg = pu.degree() + pv.degree();
        const std::vector<QP> q = mesh_qps(rm, ideg);
        const OpSpec o = op; const Poly& U = pu; const Poly& V = pv;
        const LD ex = al * integrate(q, [&](const LD* x) { return o.integrand(U, V, x, dim); });
        const LD got = bil(vs, dA, us);
        const LD tol = tol_of<DT>(kap, maxabs(us) * maxabs(vs) * SA);
        VF_CHECK(std::isfinite((double)got) && fabsl(got - ex) <= tol, op_names[op.kind] << "(" << op.a << "," << op.b << "): v^T A u = " << (double)got << " but the exact bilinear form is " << (double)ex << " (tol " << (double)tol << ")");
      }
    }

    void run()
    {
      // ---------------------------------------------------------------- decode the rest of the case
      {
        // operator kinds admissible for the pair (see the domain facts in c16_core.hpp), chosen by construction
        const bool simplex0 = rm.simplex;
        static const int w[OpCount] = {3, 3, 1, 3, 2, 2, 2};
        std::vector<int> kinds; std::vector<int> ws;
        for(int k = 0; k < OpCount; ++k)
        {
          const bool g_te = (k != OpIdentity && k != OpTrialDeriv), g_tr = (k != OpIdentity && k != OpTestDeriv);
          if((g_te && !TeTag::has_grad) || (g_tr && !TrTag::has_grad)) continue;
          if(k == OpLaplaceBeltrami && !(TeTag::parametric(simplex0) && TrTag::parametric(simplex0))) continue;
          kinds.push_back(k); ws.push_back(w[k]);
        }
        int tot = 0; for(int x : ws) tot += x; int r = int(t.raw() % std::uint32_t(tot)); size_t sel = 0; while(r >= ws[sel]) { r -= ws[sel]; ++sel; }
        op.kind = kinds[sel];
        if(op.kind == OpTrialDeriv && c.excl("c16-trial-derivative")) op.kind = TeTag::has_grad ? (int)OpTestDeriv : (int)OpIdentity;
      }
      op.a = t.range(0, dim - 1); op.b = t.range(0, dim - 1);
      if(op.kind < OpTrialDeriv) op.a = op.b = 0; if(op.kind == OpTrialDeriv || op.kind == OpTestDeriv) op.b = 0;
      { static const double as[] = {1.0, -1.0, 2.0, 0.5}; int ak = t.pick({4, 1, 1, 1, 2, 1}); alpha = ak < 4 ? DT(as[ak]) : (ak == 4 ? DT(t.real_nz(2)) : DT(0)); c.label(ak < 4 ? "alpha:simple" : (ak == 4 ? "alpha:generated" : "alpha:0")); }
      const bool simplex = rm.simplex;
      int need = TeTag::bdeg(simplex) + TrTag::bdeg(simplex) + (rm.cells_affine ? 0 : dim - 1);
      const int cap = cub_cap(rm);
      cubdeg = std::min(cap, need + t.range(0, dim == 2 ? 3 : 1));
      cubname = "auto-degree:" + std::to_string(cubdeg);
      pat = same ? t.pick({3, 1, 1, 3, 1, 1}) : t.pick({4, 1, 1});
      accumulate = t.flag(1, 4); xseed = t.raw(); sseed = t.flag(1, 3) ? (t.raw() | 1u) : 0u;
      // exact oracle available: cubature exact on the cells and P_k(x) really contained in both spaces
      exact_ok = (cubdeg >= need) && (rm.cells_affine || (op.mass_type() && TeTag::nonaffine_ok && TrTag::nonaffine_ok));
      const bool tens_u = !simplex && rm.axis_aligned && TrTag::tensor && t.flag(1, 3);
      const bool tens_v = !simplex && rm.axis_aligned && TeTag::tensor && t.flag(1, 3);
      pu = gen_poly(t, dim, TrTag::p, tens_u); pv = gen_poly(t, dim, TeTag::p, tens_v);

      mesh = make_feat_mesh<MeshType>(rm); trafo.reset(new TrafoType(*mesh)); te.reset(new TestSpace(*trafo)); tr.reset(new TrialSpace(*trafo));

      c.desc.set("mesh", rm.json()); c.desc.set("test", TeTag::name()); c.desc.set("trial", TrTag::name()); c.desc.set("dt", TN<DT>::n()); c.desc.set("it", IN<IT>::n());
      c.desc.set("op", op_names[op.kind]); c.desc.set("ir", op.a); c.desc.set("ic", op.b); c.desc.set("alpha", (double)alpha); c.desc.set("cubature", cubname);
      static const char* pn[] = {"std2", "ext_facet2", "ext_node2", "std1", "ext_facet1", "ext_node1"}; c.desc.set("pattern", pn[pat]);
      c.desc.set("u", pu.json()); c.desc.set("v", pv.json()); c.desc.set("accumulate", accumulate); c.desc.set("xseed", (long long)xseed); c.desc.set("split", (long long)sseed);
      label_mesh(c, rm); c.label(std::string("op:") + op_names[op.kind]); c.label(std::string("pair:") + TeTag::name() + "/" + TrTag::name());
      c.label(std::string("dt:") + TN<DT>::n()); c.label(std::string("pattern:") + pn[pat]); c.label(exact_ok ? "oracle:exact" : "oracle:identities-only");
      c.label(same ? "spaces:same" : "spaces:rectangular"); if(tens_u || tens_v) c.label("poly:tensor"); if(cubdeg > need) c.label("cubature:above-minimum"); else c.label("cubature:minimum");
      if(sseed) c.label("route:split-domain"); if(accumulate) c.label("route:accumulate");
      c.op = std::string("bilin:") + op_names[op.kind];
      // non-trivial: more than one coupling and a form that does not vanish identically on the pair
      const bool grad_te = op.kind != OpIdentity && op.kind != OpTrialDeriv, grad_tr = op.kind != OpIdentity && op.kind != OpTestDeriv;
      c.nontrivial = (alpha != DT(0)) && !(grad_te && TeTag::p == 0) && !(grad_tr && TrTag::p == 0) && (te->get_num_dofs() * tr->get_num_dofs() > 1);
      c.announce();
      // (gradient operators are not even instantiated for pairs with a value-only space)
      constexpr bool gte = TeTag::has_grad, gtr = TrTag::has_grad;
      if(op.kind == OpIdentity) { Assembly::Common::IdentityOperator o; routes(o); }
      else if(op.kind == OpTestDeriv) { if constexpr(gte) { Assembly::Common::TestDerivativeOperator o(op.a); routes(o); } }
      else if(op.kind == OpTrialDeriv) { if constexpr(gtr) { Assembly::Common::TrialDerivativeOperator o(op.a); routes(o); } }
      else if constexpr(gte && gtr)
      {
        if(op.kind == OpLaplace) { Assembly::Common::LaplaceOperator o; routes(o); }
        else if(op.kind == OpLaplaceBeltrami) { Assembly::Common::LaplaceBeltramiOperator o; routes(o); }
        else if(op.kind == OpDivDiv) { Assembly::Common::DivDivOperator o(op.a, op.b); routes(o); }
        else { Assembly::Common::DuDvOperator o(op.a, op.b); routes(o); }
      }
    }
  };

  /// pair catalogue for one shape, split into two halves compiled in separate translation units (compile time)
  static const char* const pair_names[] = {"lagrange1/lagrange1", "lagrange2/lagrange2", "lagrange2/lagrange1", "lagrange1/discontinuous0", "lagrange2/lagrange1:float",
                                           "discontinuous1/lagrange2", "crorav_rantur/crorav_rantur", "crorav_rantur/discontinuous0", "lagrange3/lagrange3", "lagrange1/lagrange3"};
  template<typename Shape_> void bilin_pairs_a(Tape& t, Ctx& c, const RawMesh& rm, int which)
  {
    typedef std::uint64_t I64;
    switch(which)
    {
    case 0: { BilinCase<Shape_, SL1, SL1, double, I64> k(t, c, rm); k.run(); break; }
    case 1: { BilinCase<Shape_, SL2, SL2, double, I64> k(t, c, rm); k.run(); break; }
    case 2: { BilinCase<Shape_, SL2, SL1, double, I64> k(t, c, rm); k.run(); break; }
    case 3: { BilinCase<Shape_, SL1, SD0, double, I64> k(t, c, rm); k.run(); break; }
    default: { BilinCase<Shape_, SL2, SL1, float, std::uint32_t> k(t, c, rm); k.run(); break; }
    }
  }
  template<typename Shape_> void bilin_pairs_b(Tape& t, Ctx& c, const RawMesh& rm, int which)
  {
    typedef std::uint64_t I64;
    switch(which)
    {
    case 5: { BilinCase<Shape_, SD1, SL2, double, I64> k(t, c, rm); k.run(); break; }
    case 6: { BilinCase<Shape_, SCR, SCR, double, I64> k(t, c, rm); k.run(); break; }
    case 7: { BilinCase<Shape_, SCR, SD0, double, I64> k(t, c, rm); k.run(); break; }
    case 8: { BilinCase<Shape_, SL3, SL3, double, I64> k(t, c, rm); k.run(); break; }
    default: { BilinCase<Shape_, SL1, SL3, double, I64> k(t, c, rm); k.run(); break; }
    }
  }
  // explicit instantiations live in c16_bilin_<shape>a.cpp / c16_bilin_<shape>b.cpp
  extern template void bilin_pairs_a<Shape::Hypercube<2>>(Tape&, Ctx&, const RawMesh&, int); extern template void bilin_pairs_b<Shape::Hypercube<2>>(Tape&, Ctx&, const RawMesh&, int);
  extern template void bilin_pairs_a<Shape::Simplex<2>>(Tape&, Ctx&, const RawMesh&, int); extern template void bilin_pairs_b<Shape::Simplex<2>>(Tape&, Ctx&, const RawMesh&, int);
  extern template void bilin_pairs_a<Shape::Hypercube<3>>(Tape&, Ctx&, const RawMesh&, int); extern template void bilin_pairs_b<Shape::Hypercube<3>>(Tape&, Ctx&, const RawMesh&, int);
  extern template void bilin_pairs_a<Shape::Simplex<3>>(Tape&, Ctx&, const RawMesh&, int); extern template void bilin_pairs_b<Shape::Simplex<3>>(Tape&, Ctx&, const RawMesh&, int);

  template<typename Shape_, bool simplex_> void bilin_target(Tape& t, Ctx& c)
  {
    MeshOpts o; o.dim = Shape_::dimension; o.simplex = simplex_; o.max_n = (o.dim == 2 ? 4 : 2);
    const int which = t.pick({3, 3, 2, 2, 2, 2, 2, 2, 2, 2});
    // work bound: pairs with many local dofs get fewer cells (3D: lagrange3 has 64 resp. 20 local dofs)
    if(o.dim == 3) o.max_cells = (which == 8 || which == 9) ? 2 : ((which == 1 || which == 2 || which == 4 || which == 5) ? 4 : 8);
    RawMesh rm = gen_mesh(t, o);
    if(which < 5) bilin_pairs_a<Shape_>(t, c, rm, which); else bilin_pairs_b<Shape_>(t, c, rm, which);
  }
} // namespace c16
