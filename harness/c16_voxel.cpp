// C16: voxel assemblers (Poisson / deformation / Burgers matrix and defect vector, Q2 on hypercube meshes, colorings from
// Adjacency::Coloring or plain color vectors) against the classic cell-loop assemblers, the kernel identity and exact integrals.
#include "c16_burgers.hpp"
#include <kernel/voxel_assembly/poisson_assembler.hpp>
#include <kernel/voxel_assembly/defo_assembler.hpp>
#include <kernel/voxel_assembly/burgers_assembler.hpp>
#include <kernel/assembly/bilinear_operator_assembler.hpp>
#include <kernel/assembly/common_operators.hpp>
#include <kernel/adjacency/coloring.hpp>

namespace c16
{
  /// cells are neighbours when they share a vertex (Q2: then they share a dof); coloring = distinct colors for neighbours
  template<typename Mesh_> Adjacency::Graph cell_neighbours(const Mesh_& mesh)
  {
    const auto& c2v = mesh.template get_index_set<Mesh_::shape_dim, 0>();
    Adjacency::Graph v2c(Adjacency::RenderType::transpose, c2v);
    return Adjacency::Graph(Adjacency::RenderType::injectify_sorted, c2v, v2c);
  }

  template<int dim, typename DT, typename IT>
  void voxel_case(Tape& t, Ctx& c, const RawMesh& rm, int kind)
  {
    typedef Shape::Hypercube<dim> ShapeType;
    typedef Geometry::ConformalMesh<ShapeType> MeshType;
    typedef Trafo::Standard::Mapping<MeshType> TrafoType;
    typedef Space::Lagrange2::Element<TrafoType> SpaceType;
    static_assert(std::is_same<SpaceType, VoxelAssembly::Q2StandardHyperCube<dim>>::value, "space type of the voxel assemblers");
    static const char* kn[] = {"poisson", "defo", "burgers_matrix", "burgers_vector"};
    const double kap = rm.kappa;
    // coloring class: 0 Adjacency::Coloring of the neighbour graph, 1 the same as color vector, 2 one color per cell (vector), 3 color vector with hint = #colors
    const int colcls = t.pick({3, 2, 1, 2});
    BurgersParams p;
    if(kind == 1) { p.deformation = true; p.nu = t.flag(1, 2) ? t.real_nz(1) : 0.78; p.theta = p.beta = p.frechet_beta = 0; }
    if(kind >= 2) { p = gen_burgers_params(t, c, true, kind == 2, kind == 2); }
    // known finding: the voxel Burgers matrix kernel does not gather the convection field when only the Frechet term is active
    if(kind == 2 && p.frechet_beta != 0.0 && p.beta == 0.0 && p.sd_delta == 0.0 && c.excl("c16-voxel-frechet-noconv")) { p.beta = 1.0; c.label("terms:frechet->with-convection"); }
    const DT alpha = DT(t.flag(1, 3) ? t.real_nz(1) : 1.0);
    std::vector<Poly> V = gen_polys(t, dim, dim, 2, false), U = gen_polys(t, dim, dim, 2, false), W = gen_polys(t, dim, dim, 2, false);
    if(kind >= 2 && t.flag(1, 5)) for(auto& q : V) { q.t.clear(); q.t.push_back({0.0, {0, 0, 0}}); }
    const int need = 4 + ((kind >= 2 && (p.beta != 0.0 || p.frechet_beta != 0.0)) ? 2 : 0);
    const int cubdeg = need + t.range(0, 1); const std::string cubname = "auto-degree:" + std::to_string(cubdeg);
    int stag_cell = -1;
    if(kind >= 2 && t.flag(1, 4)) { stag_cell = stagnation_field(t, rm, V); if(kind == 2 && p.sd_delta == 0.0 && t.flag(3, 4)) { p.sd_delta = 0.5; p.sd_nu = 1.0; c.label("streamdiff:on"); } c.label("conv:stagnation-point"); }
    const bool exact_ok = rm.cells_affine && p.sd_delta == 0.0;

    auto mesh = make_feat_mesh<MeshType>(rm); TrafoType trafo(*mesh); SpaceType space(trafo);
    c.desc.set("mesh", rm.json()); c.desc.set("kind", kn[kind]); c.desc.set("dt", TN<DT>::n()); c.desc.set("it", IN<IT>::n()); c.desc.set("coloring", colcls);
    c.desc.set("params", p.json()); c.desc.set("alpha", (double)alpha); c.desc.set("cubature", cubname); c.desc.set("conv", polys_json(V)); c.desc.set("stagnation_cell", stag_cell); c.desc.set("u", polys_json(U)); c.desc.set("w", polys_json(W));
    label_mesh(c, rm); c.label(std::string("kind:") + kn[kind]); c.label(std::string("dt:") + TN<DT>::n()); c.label(std::string("it:") + IN<IT>::n());
    static const char* cn[] = {"coloring:adjacency", "coloring:vector", "coloring:one-per-cell", "coloring:vector+hint"}; c.label(cn[colcls]);
    c.label(exact_ok ? "oracle:exact" : "oracle:routes+identities");
    c.op = std::string("voxel:") + kn[kind];
    c.nontrivial = true;
    c.announce();

    // ------------------------------------------------------------------ coloring
    Adjacency::Graph nb = cell_neighbours(*mesh);
    Adjacency::Coloring col(nb);
    const Index ncell = mesh->get_num_elements();
    std::vector<int> colvec((size_t)ncell); int ncol = 0;
    for(Index i = 0; i < ncell; ++i) { colvec[(size_t)i] = (colcls == 2) ? int(i) : int(col.get_coloring()[i]); ncol = std::max(ncol, colvec[(size_t)i] + 1); }
    // the coloring handed to the assemblers must separate neighbours (precondition of the voxel assemblers)
    for(Index i = 0; i < ncell; ++i) for(auto it = nb.image_begin(i); it != nb.image_end(i); ++it) if(*it != i) VF_CHECK(colvec[(size_t)i] != colvec[(size_t)*it], "Adjacency::Coloring gave neighbouring cells " << i << " and " << *it << " the same color");
    c.label(ncol == 1 ? "colors:1" : (ncol <= 4 ? "colors:2-4" : "colors:5+"));
    const int hint = (colcls == 3) ? ncol : -1;
    Cubature::DynamicFactory cub(cubname);
    const Index nd = space.get_num_dofs(); const long n = (long)nd;
    const LD al = (LD)alpha;

    if(kind == 0)
    {
      typedef LAFEM::SparseMatrixCSR<DT, IT> MatrixType;
      MatrixType A, B; Assembly::SymbolicAssembler::assemble_matrix_std1(A, space); A.format(); B = A.clone(LAFEM::CloneMode::Layout); B.format();
      Assembly::Common::LaplaceOperator lap; Assembly::BilinearOperatorAssembler::assemble_matrix1(A, lap, space, cub, alpha);
      if(colcls == 0) { VoxelAssembly::VoxelPoissonAssembler<SpaceType, DT, IT> va(space, col, hint); va.assemble_matrix1(B, space, cub, alpha); }
      else { VoxelAssembly::VoxelPoissonAssembler<SpaceType, DT, IT> va(space, colvec, hint); va.assemble_matrix1(B, space, cub, alpha); }
      const Dn dA = dense_of(A), dB = dense_of(B);
      check_same<DT>(dA, dB, kap, "VoxelPoissonAssembler vs BilinearOperatorAssembler(LaplaceOperator)");
      const LD amax = dB.maxabs();
      for(long i = 0; i < n; ++i) { LD s = 0, sa = 0; for(long j = 0; j < n; ++j) { s += dB(i, j); sa += fabsl(dB(i, j)); } VF_CHECK(fabsl(s) <= tol_of<DT>(kap, std::max(sa, amax)), "voxel Poisson matrix: row sum " << i << " = " << (double)s << " (constants are in the kernel)"); }
      for(long i = 0; i < n; ++i) for(long j = i + 1; j < n; ++j) VF_CHECK(fabsl(dB(i, j) - dB(j, i)) <= tol_of<DT>(kap, amax), "voxel Poisson matrix not symmetric at (" << i << "," << j << ")");
      if(exact_ok)
      {
        PolyFunction<dim> fu(U[0]), fw(W[0]); LAFEM::DenseVector<DT, IT> uh, wh; Assembly::Interpolator::project(uh, fu, space); Assembly::Interpolator::project(wh, fw, space);
        const std::vector<LD> us = flat_of(uh), ws = flat_of(wh); const std::vector<QP> qp = mesh_qps(rm, 4);
        const LD ex = al * integrate(qp, [&](const LD* x) { LD s = 0; for(int a = 0; a < dim; ++a) s += U[0].der<LD>(x, a) * W[0].der<LD>(x, a); return s; });
        const LD got = bil(ws, dB, us); const LD tol = tol_of<DT>(kap, maxabs(us) * maxabs(ws) * dB.sumabs());
        VF_CHECK(std::isfinite((double)got) && fabsl(got - ex) <= tol, "voxel Poisson: w^T A u = " << (double)got << " but the exact Dirichlet form is " << (double)ex);
      }
      return;
    }
    typedef LAFEM::SparseMatrixBCSR<DT, IT, dim, dim> BMatrix; typedef LAFEM::DenseVectorBlocked<DT, IT, dim> BVector;
    BVector conv; fill_blocked<DT, IT, dim>(conv, space, V);
    Assembly::BurgersAssembler<DT, IT, dim> basm; p.apply(basm); basm.set_sd_v_norm(conv);
    BMatrix A; Assembly::SymbolicAssembler::assemble_matrix_std1(A, space); A.format();
    basm.assemble_matrix(A, conv, space, cub, alpha);
    const Dn dA = dense_of(A); const LD amax = dA.maxabs(), SA = dA.sumabs();
    const LD flo = burgers_floor<DT>(p, al, mesh_volume(rm), maxabs(flat_of(conv)), kap);
    if(kind == 1)
    {
      BMatrix B = A.clone(LAFEM::CloneMode::Layout); B.format();
      if(colcls == 0) { VoxelAssembly::VoxelDefoAssembler<SpaceType, DT, IT> va(space, col, hint); va.nu = DT(p.nu); va.assemble_matrix1(B, space, cub, alpha); }
      else { VoxelAssembly::VoxelDefoAssembler<SpaceType, DT, IT> va(space, colvec, hint); va.nu = DT(p.nu); va.assemble_matrix1(B, space, cub, alpha); }
      const Dn dB = dense_of(B);
      check_same<DT>(dA, dB, kap, "VoxelDefoAssembler vs BurgersAssembler(deformation)", flo);
      for(long i = 0; i < n * dim; ++i) for(int a = 0; a < dim; ++a) { LD s = 0, sa = 0; for(long j = 0; j < n; ++j) { s += dB(i, j * dim + a); sa += fabsl(dB(i, j * dim + a)); } VF_CHECK(fabsl(s) <= tol_of<DT>(kap, std::max(sa, amax)), "voxel deformation matrix: row " << i << " applied to the constant field e_" << a << " = " << (double)s); }
      if(exact_ok)
      {
        BVector uv, wv; fill_blocked<DT, IT, dim>(uv, space, U); fill_blocked<DT, IT, dim>(wv, space, W); const std::vector<LD> us = flat_of(uv), ws = flat_of(wv);
        const std::vector<QP> qp = mesh_qps(rm, 4);
        const LD ex = al * integrate(qp, [&](const LD* x) { return burgers_integrand(p, dim, V, U, W, x); });
        const LD got = bil(ws, dB, us); const LD tol = tol_of<DT>(kap, maxabs(us) * maxabs(ws) * dB.sumabs());
        VF_CHECK(std::isfinite((double)got) && fabsl(got - ex) <= tol, "voxel deformation: w^T A u = " << (double)got << " but the exact form nu*(grad u + grad u^T):grad w is " << (double)ex);
      }
      return;
    }
    // Burgers
    auto setup = [&](auto& va) { va.deformation = p.deformation; va.nu = DT(p.nu); va.theta = DT(p.theta); va.beta = DT(p.beta); va.frechet_beta = DT(p.frechet_beta); va.sd_delta = DT(p.sd_delta); va.sd_nu = DT(p.sd_nu); va.set_sd_v_norm(conv);
      VF_CHECK(fabsl((LD)va.sd_v_norm - (LD)basm.sd_v_norm) <= 8 * unit_roundoff<DT>() * fabsl((LD)basm.sd_v_norm), "sd_v_norm of the voxel assembler " << (double)va.sd_v_norm << " vs BurgersAssembler " << (double)basm.sd_v_norm); };
    if(kind == 2)
    {
      BMatrix B = A.clone(LAFEM::CloneMode::Layout); B.format();
      if(colcls == 0) { VoxelAssembly::VoxelBurgersAssembler<SpaceType, DT, IT> va(space, col, hint); setup(va); va.assemble_matrix1(B, conv, space, cub, alpha); }
      else { VoxelAssembly::VoxelBurgersAssembler<SpaceType, DT, IT> va(space, colvec, hint); setup(va); va.assemble_matrix1(B, conv, space, cub, alpha); }
      const Dn dB = dense_of(B);
      check_same<DT>(dA, dB, kap, "VoxelBurgersAssembler::assemble_matrix1 vs BurgersAssembler::assemble_matrix", flo);
      if(exact_ok)
      {
        BVector uv, wv; fill_blocked<DT, IT, dim>(uv, space, U); fill_blocked<DT, IT, dim>(wv, space, W); const std::vector<LD> us = flat_of(uv), ws = flat_of(wv);
        const std::vector<QP> qp = mesh_qps(rm, 6);
        const LD ex = al * integrate(qp, [&](const LD* x) { return burgers_integrand(p, dim, V, U, W, x); });
        const LD got = bil(ws, dB, us); const LD tol = tol_of<DT>(kap, maxabs(us) * maxabs(ws) * dB.sumabs()) + maxabs(us) * maxabs(ws) * flo;
        VF_CHECK(std::isfinite((double)got) && fabsl(got - ex) <= tol, "voxel Burgers: w^T N(v) u = " << (double)got << " but the exact operator value is " << (double)ex);
      }
      return;
    }
    {
      BVector prim; fill_blocked<DT, IT, dim>(prim, space, U); const std::vector<LD> ps = flat_of(prim);
      BVector r(nd); r.format(DT(0.25));
      if(colcls == 0) { VoxelAssembly::VoxelBurgersAssembler<SpaceType, DT, IT> va(space, col, hint); setup(va); va.assemble_vector(r, conv, prim, space, cub, alpha); }
      else { VoxelAssembly::VoxelBurgersAssembler<SpaceType, DT, IT> va(space, colvec, hint); setup(va); va.assemble_vector(r, conv, prim, space, cub, alpha); }
      std::vector<LD> got = flat_of(r), ref((size_t)(n * dim), 0.25L); LD S = std::max(amax * maxabs(ps), 0.25L);
      for(long i = 0; i < n * dim; ++i) { LD sa = 0; for(long j = 0; j < n * dim; ++j) { ref[(size_t)i] += dA(i, j) * ps[(size_t)j]; sa += fabsl(dA(i, j) * ps[(size_t)j]); } S = std::max(S, sa); }
      for(long i = 0; i < n * dim; ++i) VF_CHECK(std::isfinite((double)got[(size_t)i]) && fabsl(got[(size_t)i] - ref[(size_t)i]) <= tol_of<DT>(kap, S) + flo * maxabs(ps), "VoxelBurgersAssembler::assemble_vector entry " << i << ": " << (double)got[(size_t)i] << " vs y + alpha*N(v)*primal " << (double)ref[(size_t)i]);
      (void)SA;
    }
  }

  template<int dim> void voxel_target(Tape& t, Ctx& c)
  {
    MeshOpts o; o.dim = dim; o.simplex = false; o.max_n = (dim == 2 ? 4 : 2); if(dim == 3) o.max_cells = 4;
    const int kind = t.pick({3, 2, 3, 2});
    const int ty = (kind == 0) ? t.pick({3, 1, 1, 1}) : t.pick({3, 0, 1, 0});
    RawMesh rm = gen_mesh(t, o);
    switch(ty)
    {
    case 0: voxel_case<dim, double, std::uint64_t>(t, c, rm, kind); break;
    case 1: if(kind == 0) voxel_case<dim, double, std::uint32_t>(t, c, rm, 0); break;
    case 2: voxel_case<dim, float, std::uint32_t>(t, c, rm, kind); break;
    default: if(kind == 0) voxel_case<dim, float, std::uint64_t>(t, c, rm, 0); break;
    }
  }
}

int main(int argc, char** argv)
{
  FEAT::Runtime::ScopeGuard guard(argc, argv);
  std::vector<vf::Target> tg;
  tg.push_back({"voxel_quad", [](vf::Tape& t, vf::Ctx& c) { c16::voxel_target<2>(t, c); }, 200, 2, 60000});
  tg.push_back({"voxel_hexa", [](vf::Tape& t, vf::Ctx& c) { c16::voxel_target<3>(t, c); }, 200, 2, 60000});
  return vf::main_impl(argc, argv, tg);
}
