// C16: scalar bilinear operators on Hypercube<3> meshes, pair catalogue half 'b' (see c16_bilin.hpp)
#include "c16_bilin.hpp"
namespace c16 { template void bilin_pairs_b<Shape::Hypercube<3>>(vf::Tape&, vf::Ctx&, const RawMesh&, int); }
