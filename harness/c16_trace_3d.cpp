// C16: trace assembler on 3D meshes (see c16_trace.hpp)
#include "c16_trace.hpp"
namespace c16 { template void trace_spaces<Shape::Hypercube<3>>(vf::Tape&, vf::Ctx&, const RawMesh&, int); template void trace_spaces<Shape::Simplex<3>>(vf::Tape&, vf::Ctx&, const RawMesh&, int); }
