// C04: vector operations equal their element-wise definitions for every vector kind (dense, blocked, tuple, power)
// including all operand aliasings the signatures permit; blocked/composed vectors behave like the plain vector
// holding the same scalars.  Oracle: long double on the flattened scalar list (own recursion, not feat3's).
#include "common/lafem_gen.hpp"
#include "common/c01_core.hpp"
using namespace vf;

typedef double D;
template<typename DT, typename IT> using DVt = DenseVector<DT, IT>;

// smallest leaf (component) size of a composed vector
template<typename DT, typename IT> long vminleaf(const DenseVector<DT, IT>& v) { return (long)v.size(); }
template<typename DT, typename IT, int B> long vminleaf(const DenseVectorBlocked<DT, IT, B>& v) { return (long)v.size(); }
template<typename Sub, int n> long vminleaf(const PowerVector<Sub, n>& v);
template<typename F, typename... R> long vminleaf(const TupleVector<F, R...>& v);
template<typename F> long vminleaf(const TupleVector<F>& v) { return vminleaf(v.first()); }
template<typename F, typename... R> long vminleaf(const TupleVector<F, R...>& v) { return std::min(vminleaf(v.first()), vminleaf(v.rest())); }
template<typename Sub> long vminleaf(const PowerVector<Sub, 1>& v) { return vminleaf(v.first()); }
template<typename Sub, int n> long vminleaf(const PowerVector<Sub, n>& v) { return std::min(vminleaf(v.first()), vminleaf(v.rest())); }

// lengths favour the neighbourhood of multiples of 4 (allocation granularity)
static long gen_len(Tape& t, int maxlen)
{
  static const int special[] = {0, 1, 2, 3, 4, 5, 7, 8, 9, 12, 15, 16, 17, 31, 32, 33, 63, 64, 65, 67};
  if(t.flag(1, 2)) { int k = t.range(0, 19); long v = special[k]; if(v > maxlen) v = maxlen; long cap = (long)t.size * maxlen / 100 + 3; return std::min(v, cap); }
  return t.sized(0, maxlen);
}

enum Op { OP_AXPY, OP_SCALE, OP_CPROD, OP_CINV, OP_DOT, OP_TDOT, OP_NORM2, OP_NORM2SQR, OP_MAXABS, OP_MINABS, OP_MAX, OP_MIN, OP_COPY, OP_FORMAT, OP_CLONE, OP_COUNT };
static const char* op_name[] = {"axpy", "scale", "component_product", "component_invert", "dot", "triple_dot", "norm2", "norm2sqr", "max_abs_element", "min_abs_element", "max_element", "min_element", "copy", "format", "clone"};
enum Alias { AL_NONE, AL_RX, AL_RY, AL_XY, AL_ALL };
static const char* alias_name[] = {"none", "r==x", "r==y", "x==y", "all-same"};

/// the generic property for one vector kind. mk(n) creates a vector whose flattened length is a function of n.
template<typename DT, typename V, typename Mk>
static void vec_case(Tape& t, Ctx& c, const char* kind, Mk mk, int maxn)
{
  long n = gen_len(t, maxn);
  int op = t.range(0, OP_COUNT - 1);
  int vcls = t.pick({3, 1, 3, 2});
  DT alpha = DT(1); std::string acls = "alpha-none";
  bool uses_alpha = (op == OP_AXPY || op == OP_SCALE || op == OP_CINV || op == OP_FORMAT);
  if(uses_alpha) alpha = gen_alpha<DT>(t, acls);
  if(op == OP_CINV && alpha == DT(0)) alpha = DT(1);
  // aliasing permitted by the signature of each op
  int als = AL_NONE;
  switch(op)
  {
  case OP_AXPY: case OP_SCALE: case OP_CINV: case OP_DOT: case OP_COPY: als = t.pick({2, 1}) ? AL_RX : AL_NONE; break;
  case OP_CPROD: case OP_TDOT: als = t.range(0, 4); break;
  default: als = AL_NONE;
  }
  V r = mk(n), x = mk(n), y = mk(n);
  long N = vsize(r);
  std::vector<double> rv = gen_values(t, (size_t)N, vcls), xv = gen_values(t, (size_t)N, vcls), yv = gen_values(t, (size_t)N, vcls);
  if(op == OP_CINV) for(auto& v : ((als == AL_RX) ? rv : xv)) if(v == 0.0 || std::fabs(v) < 1e-3) v = (v < 0 ? -1.5 : 2.5);   // component_invert needs non-zero x
  c.desc.set("kind", kind); c.desc.set("dt", TypeName<DT>::n()); c.desc.set("n", n); c.desc.set("flat_len", N); c.desc.set("op", op_name[op]); c.desc.set("alias", alias_name[als]); c.desc.set("alpha", (double)alpha);
  c.desc.set("r", J(rv)); if(als != AL_RX && als != AL_ALL) c.desc.set("x", J(xv)); if(als == AL_NONE || als == AL_RX) c.desc.set("y", J(yv));
  c.op = op_name[op]; c.label(std::string("op:") + op_name[op]); c.label(std::string("alias:") + alias_name[als]); c.label(acls);
  c.label(N == 0 ? "len:0" : (N == 1 ? "len:1" : (N % 4 ? "len:non-multiple-of-4" : "len:multiple-of-4")));
  static const char* vcn[] = {"val:int", "val:dyadic", "val:scaled", "val:spread"}; c.label(vcn[vcls]);
  vfill_all(r, rv); vfill_all(x, xv); vfill_all(y, yv);
  // effective operands under the alias pattern
  V& X = (als == AL_RX || als == AL_ALL) ? r : x;
  V& Y = (als == AL_RY || als == AL_ALL) ? r : (als == AL_XY ? X : y);
  std::vector<long double> R0, X0, Y0; vflat(r, R0); vflat(X, X0); vflat(Y, Y0);
  bool all_zero = true; for(auto v : R0) if(v != 0) all_zero = false; for(auto v : X0) if(v != 0) all_zero = false;
  c.nontrivial = N >= 2 && !all_zero;
  const long double u = unit_roundoff<DT>(), tiny = 16.0L * (long double)std::numeric_limits<DT>::min();
  std::string xb0, yb0; vbytes(x, xb0); vbytes(y, yb0);
  bool minmax = (op >= OP_MAXABS && op <= OP_MIN);
  // a composed vector takes min/max per component: an empty component is "min/max of an empty vector" (undefined, as above)
  if(minmax && N > 0 && vminleaf(r) == 0) { c.label("skipped:minmax-with-empty-component"); c.nontrivial = false; c.announce(); return; }
  if(minmax && N == 0) { c.label("skipped:minmax-on-empty"); c.nontrivial = false; c.announce(); return; }  // undefined on an empty vector (kernels read x[0])
  c.announce();
  std::vector<long double> R1; long double sres = 0; bool scalar = false;
  switch(op)
  {
  case OP_AXPY: r.axpy(X, alpha); break;
  case OP_SCALE: r.scale(X, alpha); break;
  case OP_CPROD: r.component_product(X, Y); break;
  case OP_CINV: r.component_invert(X, alpha); break;
  case OP_DOT: sres = (long double)r.dot(X); scalar = true; break;
  case OP_TDOT: sres = (long double)r.triple_dot(X, Y); scalar = true; break;
  case OP_NORM2: sres = (long double)r.norm2(); scalar = true; break;
  case OP_NORM2SQR: sres = (long double)r.norm2sqr(); scalar = true; break;
  case OP_MAXABS: sres = (long double)r.max_abs_element(); scalar = true; break;
  case OP_MINABS: sres = (long double)r.min_abs_element(); scalar = true; break;
  case OP_MAX: sres = (long double)r.max_element(); scalar = true; break;
  case OP_MIN: sres = (long double)r.min_element(); scalar = true; break;
  case OP_COPY: r.copy(X);
    // the mixed-type routes flat <- composed (DenseVector::copy(VT) -> set_vec) and composed <- flat (DenseVector::copy_inv(VT) -> set_vec_inv)
    if constexpr(!std::is_same<V, DenseVector<DT, typename V::IndexType>>::value) { if(N > 0) {
      typedef DenseVector<DT, typename V::IndexType> FV; std::vector<long double> fa, fb;
      FV f((Index)N); f.format(DT(-777)); f.copy(X); vflat(f, fa); vflat(X, fb); VF_CHECK(fa == fb, "DenseVector::copy(" << kind << "): the flat vector differs from the flattened source");
      V tgt = mk(n); { std::vector<double> fill((size_t)N, -777.0); vfill_all(tgt, fill); } FV g((Index)N); vfill_all(g, yv); g.copy_inv(tgt); fa.clear(); fb.clear(); vflat(tgt, fa); vflat(g, fb);
      for(long q = 0; q < N; ++q) VF_CHECK(fa[(size_t)q] == fb[(size_t)q], "DenseVector::copy_inv(" << kind << "): flat entry " << q << " of the target is " << (double)fa[(size_t)q] << ", the source holds " << (double)fb[(size_t)q]); } }
    break;
  case OP_FORMAT: r.format(alpha); break;
  case OP_CLONE: { V cl = r.clone(CloneMode::Deep); std::string a, b; vbytes(r, a); vbytes(cl, b); VF_CHECK(a == b, "deep clone differs from its source"); VF_CHECK(vsize(cl) == N, "clone has a different size");
                   // value independence
                   std::vector<double> z((size_t)N, 7.0); vfill_all(cl, z); std::string a2; vbytes(r, a2); VF_CHECK(a == a2, "writing to a deep clone changed the source"); break; }
  }
  vflat(r, R1);
  VF_CHECK((long)R1.size() == N, "vector size changed");
  // operands that are not the result stay untouched
  { std::string xb1, yb1; vbytes(x, xb1); vbytes(y, yb1); VF_CHECK(xb0 == xb1 && yb0 == yb1, "an input operand was modified by " << op_name[op]); }
  long double al = (long double)alpha;
  auto chk = [&](long i, long double ref, long double sumabs, long nterms) {
    long double tol = 8.0L * (long double)(nterms + 2) * u * sumabs + tiny;
    VF_CHECK(std::isfinite((double)R1[(size_t)i]) && fabsl(R1[(size_t)i] - ref) <= tol, op_name[op] << " [" << alias_name[als] << "] entry " << i << ": got " << (double)R1[(size_t)i] << " expected " << (double)ref << " tol " << (double)tol); };
  if(!scalar)
  {
    for(long i = 0; i < N; ++i)
    {
      size_t k = (size_t)i;
      switch(op)
      {
      case OP_AXPY: chk(i, R0[k] + al * X0[k], fabsl(R0[k]) + fabsl(al * X0[k]), 2); break;
      case OP_SCALE: chk(i, al * X0[k], fabsl(al * X0[k]), 1); break;
      case OP_CPROD: chk(i, X0[k] * Y0[k], fabsl(X0[k] * Y0[k]), 1); break;
      case OP_CINV: chk(i, al / X0[k], fabsl(al / X0[k]), 1); break;
      case OP_COPY: VF_CHECK(R1[k] == X0[k], "copy entry " << i << " differs"); break;
      case OP_FORMAT: VF_CHECK(R1[k] == (long double)alpha, "format entry " << i << " = " << (double)R1[k] << " expected " << (double)alpha); break;
      default: VF_CHECK(R1[k] == R0[k], op_name[op] << " modified its vector at entry " << i); break;
      }
    }
  }
  else
  {
    for(long i = 0; i < N; ++i) VF_CHECK(R1[(size_t)i] == R0[(size_t)i], op_name[op] << " modified its (const) vector at entry " << i);
    long double ref = 0, sa = 0;
    switch(op)
    {
    case OP_DOT: for(long i = 0; i < N; ++i) { ref += R0[(size_t)i] * X0[(size_t)i]; sa += fabsl(R0[(size_t)i] * X0[(size_t)i]); } break;
    case OP_TDOT: for(long i = 0; i < N; ++i) { long double p = R0[(size_t)i] * X0[(size_t)i] * Y0[(size_t)i]; ref += p; sa += fabsl(p); } break;
    case OP_NORM2: for(long i = 0; i < N; ++i) ref += R0[(size_t)i] * R0[(size_t)i]; ref = sqrtl(ref); sa = ref; break;
    case OP_NORM2SQR: for(long i = 0; i < N; ++i) ref += R0[(size_t)i] * R0[(size_t)i]; sa = ref; break;
    case OP_MAXABS: ref = 0; for(auto v : R0) ref = std::max(ref, fabsl(v)); break;
    case OP_MINABS: ref = fabsl(R0[0]); for(auto v : R0) ref = std::min(ref, fabsl(v)); break;
    case OP_MAX: ref = R0[0]; for(auto v : R0) ref = std::max(ref, v); break;
    default: ref = R0[0]; for(auto v : R0) ref = std::min(ref, v); break;
    }
    if(minmax) VF_CHECK(sres == ref, op_name[op] << " returned " << (double)sres << " expected " << (double)ref);
    else
    {
      // composed vectors sum partial results per component: norm2 = sqrt(sum of squares of the parts) - same bound
      long double tol = 8.0L * (long double)(N + 4) * u * sa + tiny;
      VF_CHECK(std::isfinite((double)sres) && fabsl(sres - ref) <= tol, op_name[op] << " returned " << (double)sres << " expected " << (double)ref << " tol " << (double)tol);
    }
  }
  // metamorphic relation: the plain DenseVector holding the same scalars gives the same result (bit-identical for element-wise ops)
  if(op == OP_AXPY || op == OP_SCALE || op == OP_CPROD || op == OP_CINV)
  {
    DenseVector<DT, Index> pr((Index)N), px((Index)N), py((Index)N);
    for(long i = 0; i < N; ++i) { pr.elements()[i] = DT(R0[(size_t)i]); px.elements()[i] = DT(X0[(size_t)i]); py.elements()[i] = DT(Y0[(size_t)i]); }
    DenseVector<DT, Index>& PX = (als == AL_RX || als == AL_ALL) ? pr : px; DenseVector<DT, Index>& PY = (als == AL_RY || als == AL_ALL) ? pr : (als == AL_XY ? PX : py);
    switch(op) { case OP_AXPY: pr.axpy(PX, alpha); break; case OP_SCALE: pr.scale(PX, alpha); break; case OP_CPROD: pr.component_product(PX, PY); break; default: pr.component_invert(PX, alpha); }
    for(long i = 0; i < N; ++i) VF_CHECK((long double)pr.elements()[i] == R1[(size_t)i], kind << " " << op_name[op] << " differs from the plain DenseVector result at entry " << i << ": " << (double)R1[(size_t)i] << " vs " << (double)pr.elements()[i]);
  }
}

template<typename DT, typename IT> static void dense_kind(Tape& t, Ctx& c) { typedef DenseVector<DT, IT> V; vec_case<DT, V>(t, c, "dense", [](long n) { return V((Index)n); }, 67); }
template<typename DT, typename IT, int B> static void blocked_kind(Tape& t, Ctx& c) { typedef DenseVectorBlocked<DT, IT, B> V; std::string k = "blocked<" + std::to_string(B) + ">"; vec_case<DT, V>(t, c, k.c_str(), [](long n) { return V((Index)n); }, 67 / B + 1); }
static void tuple_kind(Tape& t, Ctx& c)
{
  typedef DenseVector<D, Index> A; typedef DenseVectorBlocked<D, Index, 2> B; typedef DenseVectorBlocked<D, Index, 3> C3;
  switch(t.pick({2, 2, 1}))
  {
  case 0: { typedef TupleVector<A, B> V; vec_case<D, V>(t, c, "tuple<dense,blocked2>", [](long n) { return V(A((Index)n), B((Index)(n / 2 + 1))); }, 30); break; }
  case 1: { typedef TupleVector<B, A, C3> V; vec_case<D, V>(t, c, "tuple<blocked2,dense,blocked3>", [](long n) { return V(B((Index)n), A((Index)(n + 1)), C3((Index)(n / 3))); }, 16); break; }
  default: { typedef TupleVector<PowerVector<A, 2>, TupleVector<A, B>> V; vec_case<D, V>(t, c, "tuple<power<dense,2>,tuple<dense,blocked2>>", [](long n) { return V(PowerVector<A, 2>((Index)n), TupleVector<A, B>(A((Index)(n + 1)), B((Index)(n / 2)))); }, 14); break; }
  }
}
static void power_kind(Tape& t, Ctx& c)
{
  typedef DenseVector<D, Index> A; typedef DenseVectorBlocked<D, Index, 2> B;
  switch(t.pick({2, 2, 1, 1}))
  {
  case 0: { typedef PowerVector<A, 2> V; vec_case<D, V>(t, c, "power<dense,2>", [](long n) { return V((Index)n); }, 34); break; }
  case 1: { typedef PowerVector<A, 3> V; vec_case<D, V>(t, c, "power<dense,3>", [](long n) { return V((Index)n); }, 22); break; }
  case 2: { typedef PowerVector<A, 1> V; vec_case<D, V>(t, c, "power<dense,1>", [](long n) { return V((Index)n); }, 67); break; }
  default: { typedef PowerVector<B, 2> V; vec_case<D, V>(t, c, "power<blocked2,2>", [](long n) { return V((Index)n); }, 17); break; }
  }
}

int main(int argc, char** argv)
{
  FEAT::Runtime::ScopeGuard guard(argc, argv);
  std::vector<Target> tg;
  tg.push_back({"dense", [](Tape& t, Ctx& c) { switch(t.pick({3, 2, 1})) { case 0: dense_kind<double, std::uint64_t>(t, c); break; case 1: dense_kind<float, std::uint32_t>(t, c); break; default: dense_kind<double, std::uint32_t>(t, c); } }, 64, 4});
  tg.push_back({"blocked", [](Tape& t, Ctx& c) { switch(t.pick({2, 2, 2, 2, 1})) { case 0: blocked_kind<double, std::uint64_t, 2>(t, c); break; case 1: blocked_kind<double, std::uint64_t, 3>(t, c); break;
    case 2: blocked_kind<double, std::uint64_t, 1>(t, c); break; case 3: blocked_kind<double, std::uint64_t, 4>(t, c); break; default: blocked_kind<float, std::uint32_t, 2>(t, c); } }, 64, 4});
  tg.push_back({"tuple", tuple_kind, 64, 4});
  tg.push_back({"power", power_kind, 64, 4});
  return main_impl(argc, argv, tg);
}
