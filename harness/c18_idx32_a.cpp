// C18 (extension round) - idx32, 2D: instantiations of c18::run_case with index type std::uint32_t for the matrices and
// vectors (SparseMatrixCSR<DT, uint32>, DenseVector(Blocked)<DT, uint32>); decoder and oracles are those of c18_core.hpp
#include "c18_elems.hpp"
#include "c18_parts.hpp"
namespace c18 {
typedef std::uint32_t I32;
void idx32_quad(vf::Tape& t, vf::Ctx& c, int idx, bool flt, bool big)
{
  typedef Shape::Hypercube<2> S;
  switch(idx)
  {
  case 0: if(flt) run_case<S, EL1, float, I32>(t, c, M_L1, big); else run_case<S, EL1, double, I32>(t, c, M_L1, big); break;
  case 1: if(flt) run_case<S, EL2, float, I32>(t, c, M_L2, big); else run_case<S, EL2, double, I32>(t, c, M_L2, big); break;
  case 2: run_case<S, ED1, double, I32>(t, c, M_D1, big); break;
  case 3: run_case<S, ECR, double, I32>(t, c, M_CRH, big); break;
  default: throw vf::Discard{"bad element index"};
  }
}
void idx32_tria(vf::Tape& t, vf::Ctx& c, int idx, bool flt, bool big)
{
  typedef Shape::Simplex<2> S;
  switch(idx)
  {
  case 0: if(flt) run_case<S, EL1, float, I32>(t, c, M_L1, big); else run_case<S, EL1, double, I32>(t, c, M_L1, big); break;
  case 1: run_case<S, EL2, double, I32>(t, c, M_L2, big); break;
  case 2: run_case<S, ED0, double, I32>(t, c, M_D0, big); break;
  case 3: run_case<S, ECR, double, I32>(t, c, M_CRS, big); break;
  default: throw vf::Discard{"bad element index"};
  }
}
}
