#!/bin/bash
# confirms every delivered seed that has not been confirmed yet (sequentially; concurrent invocations wait for each other)
exec 9>/var/tmp/seed_queue.lock; flock 9
for d in /tmp/seed-*-out; do x=$(basename $d | sed 's/seed-//; s/-out//'); [ -f $d/meta.json ] && [ -f $d/patch.diff ] && [ -f $d/demo.cpp ] || continue; [ -f /verif/seeded/$x/meta.json ] && continue; /verif/scripts/seed_confirm.py $x 2>&1 | tail -1; done
