#!/bin/bash
# usage: mutant_run.sh <patch-file> <ID> [check args...]
# applies the patch to a scratch worktree of /repo (outside /repo and /verif), runs the property's check
# against it via FEAT3_ROOT, removes the worktree and the alternate build directory afterwards.
# exit status: that of the check (1 = mutant detected).
set -u
patch=$(readlink -f "$1"); id=$2; shift 2
wt=$(mktemp -d /var/tmp/feat3-mut-XXXXXX)
rmdir "$wt"
git -C /repo worktree add --detach "$wt" HEAD >/dev/null 2>&1 || { echo "worktree failed"; exit 3; }
# carry over uncommitted changes of /repo's working tree (checks always test the current tree)
git -C /repo diff HEAD | (cd "$wt" && git apply --allow-empty 2>/dev/null)
if ! (cd "$wt" && git apply "$patch"); then echo "PATCH DOES NOT APPLY: $patch"; git -C /repo worktree remove --force "$wt"; exit 3; fi
bdir=$(mktemp -d /var/tmp/feat3-mutbuild-XXXXXX)
FEAT3_ROOT="$wt" VERIF_BUILD="$bdir" /verif/check "$id" "$@"
rc=$?
git -C /repo worktree remove --force "$wt"
rm -rf "$bdir"
exit $rc
