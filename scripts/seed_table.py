#!/usr/bin/env python3
"""writes /verif/seeded/README.md: one row per confirmed seeded change (from seeded/<x>/meta.json)"""
import json, glob, os, re
rows = []
for d in sorted(glob.glob('/verif/seeded/C*')):
    mf = os.path.join(d, 'meta.json')
    if not os.path.exists(mf): continue
    m = json.load(open(mf)); c = m.get('confirmation', {})
    what = re.sub(r'\s+', ' ', m.get('what', '')).strip()
    first = what.split('. ')[0][:230]
    viol = re.sub(r'\s+', ' ', c.get('check_first_violation', '')).replace('|', '/')[:170]
    hist = m.get('history', '')
    rows.append('| %s | %s | %s | %s | %s | %s | %s |' % (os.path.basename(d), ', '.join(m.get('files_changed', c.get('files', []))), first.replace('|', '/'),
        'yes' if c.get('seed_valid') else 'NO', 'caught' if c.get('check_caught') else 'MISSED', hist, viol))
out = ['# Seeded changes (fresh sub-agents; confirmed by scripts/seed_confirm.py)', '',
       'valid = patch applies, demo passes on the unchanged tree and fails with the patch, the named unit tests still pass with the patch.',
       'check = `./check <ID> --tier quick` against the patched tree (scripts/mutant_run.sh) with the checks as committed now;',
       '"first run" notes a seed that the check missed when it was delivered and names what was added.', '',
       '| seed | files | change | valid | check | first run | first violation line |', '|---|---|---|---|---|---|---|'] + rows
open('/verif/seeded/README.md', 'w').write('\n'.join(out) + '\n')
print(len(rows), 'rows')
