#!/usr/bin/env python3
"""mkmutant.py OUT.patch FILE OLD NEW [COUNT]  - make a git-style patch replacing OLD by NEW (first or COUNT-th occurrence) in /repo/FILE"""
import sys, subprocess, tempfile, os
out, f, old, new = sys.argv[1:5]
nth = int(sys.argv[5]) if len(sys.argv) > 5 else 1
src = open(os.path.join("/repo", f)).read()
old = old.encode().decode("unicode_escape"); new = new.encode().decode("unicode_escape")
pos = -1
for _ in range(nth):
    pos = src.find(old, pos + 1)
    if pos < 0: sys.exit("OLD text not found (occurrence %d)" % nth)
mut = src[:pos] + new + src[pos + len(old):]
with tempfile.NamedTemporaryFile("w", delete=False) as t: t.write(mut)
p = subprocess.run(["diff", "-u", "--label", "a/" + f, "--label", "b/" + f, os.path.join("/repo", f), t.name], stdout=subprocess.PIPE, text=True)
os.unlink(t.name)
open(out, "w").write(p.stdout)
print(p.stdout)
