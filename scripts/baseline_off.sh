#!/bin/bash
# Runs the repository's own test suite with the verification guard OFF (no -DFEAT3_VERIF anywhere).
# Configures /repo/_build like the recorded baseline if it is missing, builds, runs ctest.
set -e
B=/repo/_build
if [ ! -f "$B/build.ninja" ]; then
  cmake -S /repo -B "$B" -G Ninja -DCMAKE_BUILD_TYPE=RelWithDebInfo -DBUILD_TESTING=ON -DCMAKE_CXX_FLAGS=-Wno-error
fi
cmake --build "$B" -j16
ctest --test-dir "$B" -j8 --timeout 900 --output-junit "$B/verif-baseline.junit.xml"
