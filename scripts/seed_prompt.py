#!/usr/bin/env python3
import sys, json
pid = sys.argv[1]; variant = sys.argv[2] if len(sys.argv) > 2 else "a"
p = [json.loads(l) for l in open('/verif/properties.jsonl') if json.loads(l)['id'] == pid][0]
wt = "/tmp/seed-%s%s" % (pid, variant)
hint = {"a": "Prefer a change that needs an unusual input class or a particular configuration to manifest.",
        "c": "Prefer a change in code that only a less common entry point reaches - another overload, data/index type or block-size instantiation, a second backend/route, an options flag, a rarely used clone/convert/assembly mode - while the common path stays intact.",
        "d": "Prefer a change that only shows at a boundary of the input domain: sizes 0 or 1, empty rows/sets/patches, a single cell or process, first/last element, exactly equal values, or the largest admissible degree/level.",
        "b": "Prefer a change that needs a multi-step sequence of operations, two cooperating sites that each look fine alone, or a particular interleaving/fault point to manifest."}[variant]
import glob, os, re
used = []
for mf in sorted(glob.glob('/verif/seeded/%s*/meta.json' % pid)) + sorted(glob.glob('/tmp/seed-%s*-out/meta.json' % pid)):
    try:
        m = json.load(open(mf)); w = re.sub(r'\s+', ' ', m.get('what', ''))
        fn = re.findall(r'([A-Za-z_][A-Za-z0-9_:<>,]*(?:::|\.)[A-Za-z_~][A-Za-z0-9_]*)', w)[:2]
        ent = ', '.join(m.get('files_changed', [])) + ((' (' + ', '.join(fn) + ')') if fn else '')
        if ent not in used: used.append(ent)
    except Exception: pass
avoid = ("\nOther engineers have ALREADY seeded changes at the following places; pick a DIFFERENT function (preferably a different file), otherwise your work is a duplicate:\n  - " + "\n  - ".join(used) + "\n") if used else ""
print(f"""You are a careful C++ engineer playing the role of a realistic *bug seeder* for the finite-element library feat3 (C++17). Your own scratch git worktree of the library is at {wt} (already created; work ONLY inside it and inside {wt}-out; do NOT read or touch /verif, /repo or other /tmp/seed-* directories).

A semantic property that users rely on:
  {pid} - {p['title']}
  {p['statement']}
  (quantified: {p['quantifier']['text']})
  Code it is anchored in: {', '.join(p['anchors']['files'][:14])}

YOUR TASK: make ONE small, realistic change to the library source in {wt} (the kind of slip a maintainer could commit: an off-by-one, a swapped argument, a missing guard/branch, a wrong index in a rarely taken path, a stale cache, a dropped synchronisation ...) that BREAKS this property, while
  (1) the library still compiles, and
  (2) the existing unit tests closest to the changed code still pass, and
  (3) ordinary everyday use would not expose it at once: {hint}
{avoid}Do not make a change that simply crashes or corrupts everything; do not add dead code, comments that give it away, or test-only switches; change library code only (files under kernel/ or control/), a few lines.

HOW TO BUILD AND RUN THINGS (no cmake build tree is available for your worktree; compile single programs):
  cd {wt}; mkdir -p _cfg; cp /repo/_build/feat_config.hpp _cfg/      # the only file you may copy from outside
  SUPPORT="test_system/test_system.cpp kernel/runtime.cpp kernel/backend.cpp kernel/util/dist.cpp kernel/util/dist_file_io.cpp kernel/util/statistics.cpp kernel/util/property_map.cpp kernel/util/xml_scanner.cpp kernel/util/memory_pool.cpp kernel/util/kahan_summation.cpp kernel/adjacency/coloring.cpp kernel/adjacency/cuthill_mckee.cpp kernel/adjacency/graph.cpp kernel/adjacency/permutation.cpp"
  # an existing unit test (they are the *-test.cpp files next to the sources, e.g. kernel/lafem/sparse_matrix_csr-test.cpp):
  g++ -std=c++17 -O1 -fopenmp -I_cfg -I. kernel/lafem/sparse_matrix_csr-test.cpp $SUPPORT -o /tmp/t.bin && /tmp/t.bin        # prints "All N tests PASSED!"
  # your own demonstration program: same command with your .cpp instead of the test file and without test_system/test_system.cpp;
  # main must start with `FEAT::Runtime::ScopeGuard guard(argc, argv);`. Voxel assembly code additionally needs kernel/voxel_assembly/arch/*.cpp.
  A compile takes 20-60 s; use at most 4 parallel compiles. Tests that read mesh files find them under {wt}/data/meshes.

DELIVERABLES in {wt}-out/ (create the directory):
  patch.diff   - `git -C {wt} diff` of your change (library files only)
  demo.cpp     - a small stand-alone program that exits 0 and prints PASS on the unchanged library and exits non-zero / prints FAIL with your change; it should exercise the library the way a user would and check the property with an independent computation
  meta.json    - {{"property": "{pid}", "files_changed": [...], "what": "<one paragraph: what the change does>", "needs_to_manifest": "<the specific input/sequence/configuration needed>", "unit_tests_run": ["<test file> -> PASSED", ...], "demo_build": "<exact build command>", "demo_result_unchanged": "...", "demo_result_changed": "..."}}
Verify everything yourself: build and run the nearest 2-4 existing unit tests WITH your change (they must pass), run demo.cpp with the change (must fail) and with the change reverted (must pass), then re-apply it (do NOT use git stash - the stash is shared between all worktrees of the repository and other engineers work in parallel; use `git diff > /tmp/my.diff; git apply -R /tmp/my.diff; ...; git apply /tmp/my.diff`) so the worktree contains the change again. Your final message: the contents of meta.json plus the patch.""")
