#!/usr/bin/env python3
"""seed_confirm.py <ID><variant>  e.g. C01a
Confirms a seeded change delivered in /tmp/seed-<X>-out (patch.diff, demo.cpp, meta.json) against a fresh scratch worktree:
 1. patch applies to /repo HEAD and touches library files only;
 2. demo.cpp passes (exit 0) on the unchanged tree and fails with the patch;
 3. the unit tests named in meta.json still pass with the patch (each compiled stand-alone);
 4. runs `/verif/check <ID> --tier quick` against the patched tree (scripts/mutant_run.sh) -> CAUGHT / MISSED.
Writes /verif/seeded/<X>/{patch.diff,demo.cpp,meta.json}; prints a summary line. Scratch worktree is removed."""
import sys, os, json, subprocess, shutil, re, tempfile, time
x = sys.argv[1]; pid = x[:3]
out = "/tmp/seed-%s-out" % x
patch = os.path.join(out, "patch.diff"); demo = os.path.join(out, "demo.cpp")
meta = json.load(open(os.path.join(out, "meta.json")))
SUP = "kernel/runtime.cpp kernel/backend.cpp kernel/util/dist.cpp kernel/util/dist_file_io.cpp kernel/util/statistics.cpp kernel/util/property_map.cpp kernel/util/xml_scanner.cpp kernel/util/memory_pool.cpp kernel/util/kahan_summation.cpp kernel/adjacency/coloring.cpp kernel/adjacency/cuthill_mckee.cpp kernel/adjacency/graph.cpp kernel/adjacency/permutation.cpp".split()
wt = tempfile.mkdtemp(prefix="seedchk-", dir="/var/tmp"); os.rmdir(wt)
def sh(cmd, cwd=None, timeout=1800):
    p = subprocess.run(cmd, shell=True, cwd=cwd, stdout=subprocess.PIPE, stderr=subprocess.STDOUT, text=True, timeout=timeout, errors="replace"); return p.returncode, p.stdout
rc, o = sh("git -C /repo worktree add --detach %s HEAD" % wt); assert rc == 0, o
report = {"confirmed_at": time.strftime("%Y-%m-%d %H:%M UTC", time.gmtime())}
try:
    os.makedirs(wt + "/_cfg"); shutil.copy("/repo/_build/feat_config.hpp", wt + "/_cfg/")
    files = re.findall(r"^\+\+\+ b/(\S+)", open(patch).read(), re.M)
    report["files"] = files
    assert files and all(f.startswith(("kernel/", "control/")) and not f.endswith("-test.cpp") for f in files), "patch touches non-library files: %s" % files
    extra = " kernel/voxel_assembly/arch/poisson_assembler.cpp kernel/voxel_assembly/arch/burgers_assembler.cpp kernel/voxel_assembly/arch/defo_assembler.cpp" if "voxel" in open(demo).read() else ""
    mpi = "mpicxx" in meta.get("demo_build", "")
    build = "%s -std=c++17 -O1 -fopenmp %s-I_cfg -I. %s %s%s -o %s/demo.bin" % ("mpicxx" if mpi else "g++", "-DFEAT_HAVE_MPI " if mpi else "", demo, " ".join(SUP), extra, wt)
    runner = "mpirun --allow-run-as-root --oversubscribe -n 4 " if mpi else ""
    rc, o = sh(build, cwd=wt); assert rc == 0, "demo does not build on the unchanged tree: " + o[-800:]
    rc0, o0 = sh(runner + wt + "/demo.bin", cwd=wt, timeout=900)
    rc, o = sh("git apply %s" % patch, cwd=wt); assert rc == 0, "patch does not apply: " + o
    rc, o = sh(build, cwd=wt); assert rc == 0, "demo does not build with the patch: " + o[-800:]
    rc1, o1 = sh(runner + wt + "/demo.bin", cwd=wt, timeout=900)
    report["demo_unchanged_rc"] = rc0; report["demo_patched_rc"] = rc1; report["demo_patched_tail"] = o1[-300:]
    tests = []
    for t in meta.get("unit_tests_run", []):
        m = re.match(r"\s*(\S+-test\.cpp)", t)
        if not m: continue
        tf = m.group(1)
        if not os.path.exists(os.path.join(wt, tf)): tests.append((tf, "missing")); continue
        aux = " " + " ".join(sorted(__import__("glob").glob(wt + "/kernel/geometry/test_aux/*.cpp"))) if "test_aux" in open(os.path.join(wt, tf)).read() else ""
        vox = aux + " kernel/voxel_assembly/arch/poisson_assembler.cpp kernel/voxel_assembly/arch/burgers_assembler.cpp kernel/voxel_assembly/arch/defo_assembler.cpp kernel/solver/voxel_amavanka.cpp" if "voxel" in tf else aux
        rc, o = sh("g++ -std=c++17 -O1 -fopenmp -I_cfg -I. %s test_system/test_system.cpp %s%s -o %s/t.bin && %s/t.bin" % (tf, " ".join(SUP), vox, wt, wt), cwd=wt, timeout=3000)
        tests.append((tf, "PASSED" if rc == 0 and "PASSED" in o and "FAILED" not in o.split("tests")[-1] else "FAILED: " + o[-200:]))
    report["unit_tests_with_patch"] = tests
finally:
    sh("git -C /repo worktree remove --force %s" % wt)
ok = report.get("demo_unchanged_rc") == 0 and report.get("demo_patched_rc", 0) != 0 and all(s == "PASSED" for _, s in report.get("unit_tests_with_patch", [])) and len(report.get("unit_tests_with_patch", [])) >= 1
report["seed_valid"] = ok
# run the check
rc, o = sh("/verif/scripts/mutant_run.sh %s %s" % (patch, pid), timeout=3600)
viol = [l for l in o.splitlines() if "violation:" in l]
report["check_cmd"] = "scripts/mutant_run.sh seeded/%s/patch.diff %s   (= ./check %s --tier quick against the patched tree)" % (x, pid, pid)
report["check_exit"] = rc; report["check_caught"] = (rc == 1 and "VIOLATION" in o); report["check_first_violation"] = viol[0].strip()[:300] if viol else ""
dst = "/verif/seeded/%s" % x; os.makedirs(dst, exist_ok=True)
shutil.copy(patch, dst); shutil.copy(demo, dst)
meta["breaks_property"] = pid; meta["confirmation"] = report
try:
    old = json.load(open(os.path.join(dst, "meta.json")))
    if old.get("history"): meta["history"] = old["history"]
    elif old.get("confirmation", {}).get("seed_valid") and not old["confirmation"].get("check_caught") and report["check_caught"]: meta["history"] = "missed when delivered; caught after the check was strengthened"
except Exception: pass
json.dump(meta, open(os.path.join(dst, "meta.json"), "w"), indent=1)
print("%s valid=%s caught=%s tests=%s demo(unchanged,patched)=(%s,%s) %s" % (x, ok, report["check_caught"], [s[:6] for _, s in report.get("unit_tests_with_patch", [])], report.get("demo_unchanged_rc"), report.get("demo_patched_rc"), report["check_first_violation"][:160]))
