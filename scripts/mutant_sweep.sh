#!/bin/bash
# usage: mutant_sweep.sh <ID> [check args]   - runs every mutant of a property, prints CAUGHT/MISSED
id=$1; shift
for p in /verif/mutants/$id/*.patch; do
  out=$(/verif/scripts/mutant_run.sh "$p" "$id" "$@" 2>&1); rc=$?
  if [ $rc -eq 1 ] && echo "$out" | grep -q "^VIOLATION"; then echo "CAUGHT $(basename $p): $(echo "$out" | grep 'violation:' | head -1)"; 
  else echo "MISSED rc=$rc $(basename $p): $(echo "$out" | tail -2 | tr '\n' ' ')"; fi
done
