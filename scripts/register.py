#!/usr/bin/env python3
"""register.py CNN "<technique>" "<level text>" ["<level note>"] - move a property from not_applicable to checks in MANIFEST.json"""
import json, sys
pid, tech, text = sys.argv[1:4]
note = sys.argv[4] if len(sys.argv) > 4 else "sampling, not proof: generators, oracle and tolerance formulas (props/%s.json) are trusted; see DESIGN.md" % pid
m = json.load(open('/verif/MANIFEST.json'))
m['not_applicable'] = [x for x in m.get('not_applicable', []) if x['property_id'] != pid]
m['checks'] = [c for c in m['checks'] if c['property_id'] != pid]
prop = json.load(open('/verif/props/%s.json' % pid))
engine = "rapidcheck+fork"
if any(r.get('script') for t in prop['runs'].values() for r in t) or any(b.get('script') for b in prop['binaries']): engine = "rapidcheck+fork / script engines (see props)"
m['checks'].append({"property_id": pid, "quick_cmd": "./check %s --tier quick" % pid, "thorough_cmd": "./check %s --tier thorough" % pid,
  "evidence_file": "/verif/evidence/%s.json" % pid, "replay_cmd_template": "./check %s --replay {path}" % pid, "engine": engine,
  "level_claimed": {"category": "exploration", "text": text, "design_ref": "DESIGN.md §4 " + pid}, "level_note": note, "technique": tech})
m['checks'].sort(key=lambda c: c['property_id'])
for e in m.get('engines', []):
    if e['name'] == 'rapidcheck+fork' and pid not in e['serves_properties']: e['serves_properties'].append(pid); e['serves_properties'].sort()
json.dump(m, open('/verif/MANIFEST.json', 'w'), indent=1)
print("registered", pid)
