#!/usr/bin/env python3
import sys, json
pid = sys.argv[1]; extra = sys.argv[2] if len(sys.argv) > 2 else ""
p = [json.loads(l) for l in open('/verif/properties.jsonl') if json.loads(l)['id'] == pid][0]
print(f"""You are building ONE property check ({pid}) inside an existing property-based-testing / fuzzing framework for the C++17 finite-element library feat3. The library source is in /repo (read-only for you: never edit, never commit there). The framework is in /verif.

THE PROPERTY (fixed text, do not reinterpret more strictly than written):
  id: {pid} - {p['title']}
  statement: {p['statement']}
  quantifier: {p['quantifier']['text']}
  anchored files: {', '.join(p['anchors']['files'])}

READ FIRST, in this order:
  1. /verif/HARNESS_GUIDE.md (how targets, props JSON, replays, mutants, exclusions work; the rules)
  2. /verif/harness/common/vf.hpp (scaffold), /verif/harness/c01_scalar.cpp + /verif/harness/common/c01_core.hpp + /verif/props/C01.json (a complete working example), /verif/check (driver)
  3. /verif/DESIGN.md: section "### {pid}" (domain, ops, oracle, non-trivial rule, must-catch mutants, notes), §2.11 (tolerance policy), §3 (shared generators), §5 (defects already seen in reconnaissance - expect your check to re-find those of your property)
  4. the anchored feat3 sources and their unit tests (*-test.cpp next to them) to learn the API and the implicit preconditions callers respect.
Throw-away probe programs from the design phase that already validated the oracles are in /root/scratch (*.cpp; build.sh shows how they were compiled against /repo/_build - the framework instead compiles from source, see HARNESS_GUIDE). {extra}

YOUR JOB:
  * Write /verif/props/{pid}.json and the harness TU(s) /verif/harness/{pid.lower()}_*.cpp (rapidcheck-tape targets via vf.hpp; libFuzzer/other engines only where DESIGN.md says so) implementing the design for {pid} as completely as you can: generators by construction covering every class the design lists, the explicit oracle(s), class labels, non-trivial rule, quick and thorough tiers (quick <= ~90 s wall incl. cold build on 16 cores; thorough = minutes, deeper sizes/counts/types).
  * Run `cd /verif && ./check {pid} --tier quick` until it builds and runs. Triage EVERY failure: false alarm (oracle demands more than the property says / implicit precondition violated / tolerance unjustified) => fix the harness and note why; genuine feat3 defect => minimise, save regression replay as /verif/replays/{pid}/kf-<name>.json, add an exclusion switch c.excl("{pid.lower()}-<name>") that steers the generator away from exactly that class so the search continues, and write it up (input, root cause file:line, proposed minimal patch as a unified diff) in /verif/findings/{pid}.md. Never weaken a correct oracle to get green.
  * Sensitivity: create 3-5 realistic mutants in /verif/mutants/{pid}/ (scripts/mkmutant.py; start from the "Must catch" list in DESIGN.md) and verify with scripts/mutant_run.sh that the QUICK tier reports VIOLATION for each; strengthen generators/oracles where one survives. Record results in /verif/findings/{pid}.md.
  * Stability: run the quick tier with VERIF_SEED=1, 2 and 3 on the unchanged tree (use VERIF_EXTRA_EXCLUDE=<your switches> while known findings are not yet registered); it must exit 0 every time. Also run the thorough tier once.
  * Check /verif/evidence/{pid}.json: class distribution sensible, no interesting class at zero, samples readable.
  * Constraints: offline sandbox; 16 cores shared with other workers (keep parallel jobs moderate: VERIF_JOBS=6); files you may touch are listed in HARNESS_GUIDE rule 6; no git commits; no edits to /repo; scratch only under /var/tmp/{pid.lower()}-*, removed at the end; no background processes left behind.

FINAL REPORT (your last message; it is all I will see): (1) files written; (2) targets with quick-tier wall time, evaluations and distinct non-trivial counts; (3) every genuine defect: failing input, symptom, root cause file:line, proposed patch (unified diff against /repo), exclusion switch name, replay file; (4) false alarms you fixed and the domain facts behind them; (5) mutants: patch file -> caught or missed (and by which target); (6) anything in the design you could not implement and why.""")
